#!/venv/bin/python
"""Single entry point:  check.py <ID> [--tier quick|thorough] [--replay FILE] [--seed N]

exit 0  property held on everything explored (KNOWN-FINDING lines possible)
exit 1  at least one "VIOLATION property=<id> replay=<path>" line
exit 2  harness error (never a verdict about the code)
"""

import os
import sys

HERE = os.path.dirname(os.path.abspath(__file__))


def _reexec():
    if os.environ.get("PYTHONHASHSEED") != "0" or os.environ.get("_VERIF_REEXEC") != "1":
        env = dict(os.environ)
        env["PYTHONHASHSEED"] = "0"
        env["_VERIF_REEXEC"] = "1"
        # worker processes are started through a fork server (no fork of a threaded parent): they find the
        # tree under test and the harness through PYTHONPATH
        repo = env.get("VERIF_REPO", "/repo")
        deps = os.path.join(HERE, ".deps")
        extra = [repo, HERE] + ([deps] if os.path.isdir(deps) else [])
        env["PYTHONPATH"] = os.pathsep.join(extra + ([env["PYTHONPATH"]] if env.get("PYTHONPATH") else []))
        env.setdefault("PYTHONWARNINGS", "ignore::UserWarning:multiprocessing.resource_tracker")
        env.setdefault("OMP_NUM_THREADS", "1")
        env.setdefault("OPENBLAS_NUM_THREADS", "1")
        env.setdefault("MKL_NUM_THREADS", "1")
        os.execve(sys.executable, [sys.executable] + sys.argv, env)


def main():
    _reexec()
    import argparse

    ap = argparse.ArgumentParser()
    ap.add_argument("id")
    ap.add_argument("--tier", default=os.environ.get("VERIF_TIER", "quick"), choices=["quick", "thorough"])
    ap.add_argument("--seed", type=int, default=None)
    ap.add_argument("--replay", default=None)
    args = ap.parse_args()
    seed = args.seed if args.seed is not None else int(os.environ.get("VERIF_SEED", "1") or "1")

    repo = os.environ.get("VERIF_REPO", "/repo")
    deps = os.path.join(HERE, ".deps")
    sys.path[:0] = [repo, HERE] + ([deps] if os.path.isdir(deps) else [])
    os.environ["QLASSKIT_VERIF"] = "1"
    os.chdir(HERE)

    try:
        import qlasskit

        qpath = os.path.realpath(os.path.dirname(qlasskit.__file__))
        if not qpath.startswith(os.path.realpath(repo) + os.sep):
            print(f"HARNESS-ERROR qlasskit imported from {qpath}, expected under {repo}")
            return 2
        import hypothesis  # noqa: F401
        from vlib import runner

        try:
            return runner.run_check(args.id, args.tier, seed, replay=args.replay)
        except runner.HarnessError as e:
            print(f"HARNESS-ERROR property={args.id}: {e}")
            return 2
    except Exception:
        import traceback

        print(f"HARNESS-ERROR property={args.id}:\n{traceback.format_exc()}")
        return 2


if __name__ == "__main__":
    rc = main()
    sys.stdout.flush()
    sys.stderr.flush()
    try:  # the multiprocessing scratch directory is normally removed by an exit handler that os._exit skips
        import multiprocessing
        import shutil

        _d = multiprocessing.current_process()._config.get("tempdir")
        if _d and os.path.basename(_d).startswith("pymp-"):
            shutil.rmtree(_d, ignore_errors=True)
    except Exception:
        pass
    # skip interpreter-exit joins of worker pools / helper threads: everything is written at this point
    os._exit(rc if isinstance(rc, int) else 0)
