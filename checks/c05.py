"""C05 - values survive the encode -> circuit -> decode round trip."""

from fractions import Fraction

from hypothesis import strategies as st

from vlib import boolsem, gen_prog, progeval, sims, synthcheck

ID = "C05"
SHARDS = 64
RULE = (
    "Hypothesis builds programs with emphasis on signature shapes (1..3 arguments and returns over bool/Qint/Qfixed/Qchar/nested Tuple/"
    "Qlist/Qmatrix; bodies returning arguments, re-packed tuples, tuple-typed locals and computed values) under both optimizers; for "
    "EVERY argument value the library's own Qtype objects are encoded with encode_input, the circuit is simulated from that bit string, "
    "output_qubits are read in order (last listed leftmost) and decode_output must give the reference value in the return type; "
    "input/output qubit lists and decode_counts are checked too. Non-trivial = signature has >=2 leaves or a nested container, f is not "
    "constant and at least one row is fully determined; distinct by canonical JSON of (program, optimizer)"
)
ASSUMPTIONS = [
    "reading convention: character j from the right is output_qubits[j] (test_qlassf.py TestQlassfEncodeInputDecodeOutput, qiskit counts)",
    "rows whose reference value is only determined modulo 2^k (wrap regime) or undetermined are compared on C01, not here",
    "reference semantics of vlib/refsem.py; vlib/sims.py reversible simulator",
]


def budget(tier):
    return 700 if tier == "quick" else 15000


def sig_cfg():
    return gen_prog.Cfg(
        int_widths=[2, 2, 3, 4], max_in_bits=8, max_args=3, depth=1, max_stmts=2,
        ret_kinds=("tuple", "tuple", "int", "bool", "char", "fixed"),
    )


@st.composite
def case(draw):
    cfg = sig_cfg()
    which = draw(st.integers(0, 9))
    prog = None
    if which < 4:
        # identity-like programs: return an argument / a re-packed tuple of arguments
        nargs = draw(st.integers(1, 3))
        args = []
        rem = 8
        for i in range(nargs):
            if rem < 1:
                break
            t = gen_prog.any_type(draw, cfg, max(1, rem - (nargs - 1 - i)), depth=2)
            rem -= gen_prog.nbits(t)
            args.append([gen_prog.NAMES[i], t])
        k = draw(st.integers(0, 2))
        if k == 0 or len(args) == 1:
            a = draw(st.sampled_from(args))
            prog = {"name": "f", "args": args, "ret": a[1], "body": [["return", ["v", a[0]]]]}
        elif k == 1:
            sel = draw(st.lists(st.sampled_from(args), min_size=2, max_size=3))
            prog = {"name": "f", "args": args, "ret": ["tuple", [gen_prog.expand(a[1]) for a in sel]], "body": [["return", ["tup", [["v", a[0]] for a in sel]]]]}
        else:
            a = draw(st.sampled_from(args))
            prog = {"name": "f", "args": args, "ret": a[1], "body": [["assign", "x", ["v", a[0]]], ["return", ["v", "x"]]]}
    else:
        prog = draw(gen_prog.program(cfg))
    return {"prog": prog, "opt": draw(st.sampled_from(["default", "fast"])), "uncompute": True}


def strategy(tier):
    return case()


def lib_value(t, plain):
    """library-side argument object for a plain value"""
    import qlasskit.types as qt

    t = gen_prog.expand(t)
    if t[0] == "bool":
        return bool(plain)
    if t[0] == "int":
        return getattr(qt, f"Qint{t[1]}")(plain)
    if t[0] == "char":
        return qt.Qchar(plain)
    if t[0] == "fixed":
        return getattr(qt, f"Qfixed{t[1]}_{t[2]}")(float(Fraction(plain)))
    return tuple(lib_value(x, p) for x, p in zip(t[1], plain))


def expected_value(t, bits):
    """decode fully determined expected bits into a plain python value"""
    t = gen_prog.expand(t)
    if t[0] == "bool":
        return bool(bits[0])
    if t[0] == "int":
        return sum(b << k for k, b in enumerate(bits))
    if t[0] == "char":
        return chr(sum(b << k for k, b in enumerate(bits)))
    if t[0] == "fixed":
        i, f = t[1], t[2]
        ip = sum(b << k for k, b in enumerate(bits[:i]))
        fp = sum(b << (f - 1 - j) for j, b in enumerate(bits[i:]))
        return Fraction((ip << f) | fp, 1 << f)
    out = []
    pos = 0
    for x in t[1]:
        n = gen_prog.nbits(x)
        out.append(expected_value(x, bits[pos : pos + n]))
        pos += n
    return tuple(out)


def same_value(t, got, exp):
    t = gen_prog.expand(t)
    if t[0] == "tuple":
        return isinstance(got, tuple) and len(got) == len(exp) and all(same_value(x, g, e) for x, g, e in zip(t[1], got, exp))
    if t[0] == "bool":
        return isinstance(got, bool) and got == exp
    if t[0] == "int":
        return isinstance(got, int) and not isinstance(got, bool) and int(got) == exp and type(got).__name__ == f"Qint{t[1]}"
    if t[0] == "char":
        return isinstance(got, str) and str(got) == exp
    if t[0] == "fixed":
        return isinstance(got, float) and Fraction(float(got)) == exp and type(got).__name__ == f"Qfixed{t[1]}_{t[2]}"
    return False


def n_leaves(t):
    t = gen_prog.expand(t)
    if t[0] == "tuple":
        return sum(n_leaves(x) for x in t[1])
    return 1


def judge(case):  # noqa: C901
    st_, payload = synthcheck.compile_case(case)
    if st_ != "ok":
        return payload
    qf, src, feats, nbits = payload
    prog = case["prog"]
    qc = qf.circuit()
    nq = qc.num_qubits
    D = lambda **kw: synthcheck.describe(qf, src, kw)  # noqa: E731

    # ---- qubit lists
    try:
        iq = list(qf.input_qubits)
        oq = list(qf.output_qubits)
    except Exception as e:
        return {"status": "violation", "kind": "qubit-lists-raise", "detail": D(exc=repr(e)), "features": feats}
    if iq != list(range(nbits)):
        return {"status": "violation", "kind": "input_qubits", "detail": D(input_qubits=iq), "features": feats}
    ret_names = progeval.ret_bit_names(prog)
    if len(oq) != len(ret_names) or any(not (0 <= q < nq) for q in oq):
        return {"status": "violation", "kind": "output_qubits-range", "detail": D(output_qubits=oq, expected_bits=ret_names), "features": feats}
    if list(qf.returns.bitvec) != ret_names:
        return {"status": "violation", "kind": "return-bit-order", "detail": D(bitvec=list(qf.returns.bitvec), expected=ret_names), "features": feats}
    try:
        facts = synthcheck.circuit_facts(qf, nbits)
        exp_cols, mask = progeval.lib_columns(qf, nbits)
    except (sims.NotClassical, boolsem.FreeSymbol, boolsem.UnsupportedNode):
        return {"status": "skip", "nontrivial": False, "features": feats + ["not-simulable"]}
    final = facts["final"]
    # shared output qubits only for identical functions
    for i in range(len(oq)):
        for j in range(i + 1, len(oq)):
            if oq[i] == oq[j] and exp_cols[ret_names[i]] != exp_cols[ret_names[j]]:
                return {"status": "violation", "kind": "shared-output-qubit", "detail": D(bits=[ret_names[i], ret_names[j]], qubit=oq[i]), "features": feats}

    try:
        ref = progeval.RefRun(prog)
    except gen_prog.GenTypeError:
        return {"status": "skip", "nontrivial": False, "features": feats + ["gen-type-error"]}
    nrows = 1 << nbits
    judged = 0
    counts = {}
    expected_counts = {}
    for r in range(nrows):
        vals, plain = progeval.row_args(prog, r)
        # encode_input with the library's own objects
        try:
            largs = [lib_value(t, p) for (_, t), p in zip(prog["args"], plain)]
            s = qf.encode_input(*largs)
        except Exception as e:
            return {"status": "violation", "kind": "encode_input-raises", "detail": D(args=plain, exc=repr(e)), "features": feats}
        want = "".join(str((r >> i) & 1) for i in range(nbits))[::-1]
        if s != want:
            return {"status": "violation", "kind": "encode_input-bits", "detail": D(args=plain, got=s, expected=want), "features": feats}
        reading = "".join(str((final[q] >> r) & 1) for q in oq)[::-1]
        try:
            got = qf.decode_output(reading)
        except Exception as e:
            return {"status": "violation", "kind": "decode_output-raises", "detail": D(args=plain, reading=reading, exc=repr(e)), "features": feats}
        st2, exp = ref.call(vals)
        if st2 != "ok" or any(b is None for b in exp):
            continue
        ev = expected_value(prog["ret"], exp)
        judged += 1
        if not same_value(prog["ret"], got, ev):
            return {
                "status": "violation",
                "kind": "roundtrip-value",
                "detail": D(args=plain, reading=reading, decoded=repr(got), expected=repr(ev), output_qubits=oq, opt=case["opt"]),
                "features": feats,
            }
        if r % 7 == 0 and len(counts) < 6:
            counts[reading] = counts.get(reading, 0) + (r % 5) + 1
            key = repr(ev)
            expected_counts[key] = expected_counts.get(key, 0) + (r % 5) + 1
    # decode_counts aggregates per decoded value
    if counts:
        try:
            dc = qf.decode_counts(dict(counts))
        except Exception as e:
            return {"status": "violation", "kind": "decode_counts-raises", "detail": D(counts=counts, exc=repr(e)), "features": feats}
        if sorted(dc.values()) != sorted(expected_counts.values()):
            return {"status": "violation", "kind": "decode_counts-aggregation", "detail": D(counts=counts, decoded={repr(k): v for k, v in dc.items()}, expected=expected_counts), "features": feats}
    const = all(exp_cols[b] in (0, mask) for b in ret_names)
    leaves = sum(n_leaves(t) for _, t in prog["args"]) + n_leaves(prog["ret"])
    nested = any(gen_prog.is_tuple(t) for _, t in prog["args"]) or gen_prog.is_tuple(prog["ret"])
    nontrivial = (leaves >= 3 or nested) and not const and judged > 0
    feats.append("judged-rows:%s" % ("all" if judged == nrows else "some" if judged else "none"))
    return {"status": "ok", "nontrivial": nontrivial, "features": feats, "rows": judged}


health = synthcheck.health
