"""C18 - the quadratic-model export has the function's minimisers as ground states.

pyqubo / dimod cannot be installed in the sealed sandbox; the check supplies the test double
/verif/shims/pyqubo (documented pyqubo algebra) when the real package is absent.
"""

import itertools
import os
import sys

from hypothesis import strategies as st

from vlib import boolsem, gen_prog, progeval, synthcheck

ID = "C18"
SHARDS = 32
TOL = 1e-9
RULE = (
    "Hypothesis builds programs with <=7 input bits and 1..4 return bits (including 'return a', repeated bits, tuples) under both "
    "optimizers and a format in {pq_model, qubo, ising, bqm}; the object returned by to_bqm is evaluated as a polynomial on ALL assignments "
    "of its variables: the input projections of its minimisers must be exactly the inputs with the fewest true return bits (energy 0 at "
    "zeros of the function), its variables must be argument bits / _ret bits / declared auxiliaries and include every argument bit the "
    "function depends on, all four formats must give the same energy per input; decode_samples on a generated sample set must spell the "
    "sample's input bits in the arguments' types. Non-trivial = function not constant, >=2 input bits, minimiser set neither empty nor "
    "everything; distinct by canonical JSON of the case"
)
ASSUMPTIONS = [
    "pyqubo is replaced by the test double /verif/shims/pyqubo implementing its documented algebra (Binary, logical gates as polynomials, *Const penalties, degree reduction with strength 5, qubo/ising/bqm conversions); what is verified is qlasskit's side of the boundary",
    "a Python bool reaching a pyqubo constructor raises TypeError (as the C++ binding does) and the function is counted as rejected",
    "reduced (qubo/ising/bqm) models are evaluated with product variables consistent with their factors",
]


def _ensure_pyqubo():
    try:
        import pyqubo  # noqa: F401
    except ImportError:
        shim = os.path.join(os.path.dirname(os.path.dirname(os.path.abspath(__file__))), "shims")
        if shim not in sys.path:
            sys.path.append(shim)
        import pyqubo  # noqa: F401
    return sys.modules["pyqubo"]


def budget(tier):
    return 300 if tier == "quick" else 8000


def cfg():
    return gen_prog.Cfg(
        int_widths=[2, 2, 3], max_in_bits=6, max_args=3, depth=2, max_stmts=2, use_char=False, use_fixed=False,
        ret_kinds=("bool", "bool", "int", "tuple"),
    )


@st.composite
def case(draw):
    which = draw(st.integers(0, 9))
    if which < 3:
        # bare-symbol / repeated-bit returns
        args = [["a", ["bool"]], ["b", ["int", 2]]]
        ret_e, ret_t = draw(st.sampled_from([(["v", "a"], ["bool"]), (["v", "b"], ["int", 2]), (["tup", [["v", "a"], ["idx", ["v", "b"], 1]]], ["tuple", [["bool"], ["bool"]]]),
                                             (["tup", [["v", "a"], ["v", "a"]]], ["tuple", [["bool"], ["bool"]]]),
                                             # repeated return bits on functions without a zero: multiplicities decide the minimisers
                                             (["tup", [["v", "a"], ["v", "a"], ["not", ["bop", "and", [["v", "a"], ["idx", ["v", "b"], 0]]]]]], ["tuple", [["bool"], ["bool"], ["bool"]]]),
                                             (["tup", [["not", ["v", "a"]], ["idx", ["v", "b"], 0], ["idx", ["v", "b"], 0], ["bop", "or", [["v", "a"], ["idx", ["v", "b"], 1]]]]], ["tuple", [["bool"]] * 4]),
                                             (["tup", [["bin", "^", ["v", "a"], ["idx", ["v", "b"], 1]], ["bin", "^", ["v", "a"], ["idx", ["v", "b"], 1]], ["not", ["v", "a"]]]], ["tuple", [["bool"]] * 3])]))
        prog = {"name": "f", "args": args, "ret": ret_t, "body": [["return", ret_e]]}
    else:
        prog = draw(gen_prog.program(cfg()))
    nb = sum(gen_prog.nbits(t) for _, t in prog["args"])
    sample_bits = draw(st.lists(st.integers(0, 1), min_size=nb, max_size=nb))
    drop = draw(st.lists(st.integers(0, max(0, nb - 1)), max_size=2))
    return {"prog": prog, "opt": draw(st.sampled_from(["default", "fast"])), "fmt": draw(st.sampled_from(["pq_model", "qubo", "ising", "bqm"])), "sample": sample_bits, "drop": drop}


def strategy(tier):
    return case()


def eval_model(obj, fmt, assign):
    """energy of one 0/1 assignment (dict var->0/1) under the object of the given format"""
    if fmt == "pq_model":
        return float(obj.energy(assign))
    if fmt == "qubo":
        q, off = obj
        return off + sum(c * assign[u] * assign[v] for (u, v), c in q.items())
    if fmt == "bqm":
        return obj.offset + sum(c * assign[u] for u, c in obj.linear.items()) + sum(c * assign[u] * assign[v] for (u, v), c in obj.quadratic.items())
    if fmt == "ising":
        h, J, off = obj
        s = {k: 2 * v - 1 for k, v in assign.items()}
        return off + sum(c * s[u] for u, c in h.items()) + sum(c * s[u] * s[v] for (u, v), c in J.items())
    raise ValueError(fmt)


def model_vars(obj, fmt):
    if fmt == "pq_model":
        return set(obj.variables)
    if fmt == "qubo":
        return {x for k in obj[0] for x in k}
    if fmt == "bqm":
        return set(obj.linear) | {x for k in obj.quadratic for x in k}
    h, J, _ = obj
    return set(h) | {x for k in J for x in k}


def judge(case):  # noqa: C901
    pq = _ensure_pyqubo()
    is_shim = bool(getattr(pq, "SHIM", False))
    prog, fmt = case["prog"], case["fmt"]
    feats = ["opt:" + case["opt"], "fmt:" + fmt, "pyqubo:" + ("shim" if is_shim else "real")]
    try:
        src = gen_prog.render_lib(prog)
        feats += gen_prog.features(prog)
    except gen_prog.GenTypeError:
        return {"status": "skip", "nontrivial": False, "features": feats + ["gen-type-error"]}
    nbits = sum(gen_prog.nbits(t) for _, t in prog["args"])
    try:
        qf, rej = progeval.compile_lib(src, case["opt"])
    except progeval.Timeout:
        return {"status": "skip", "nontrivial": False, "features": feats + ["timeout"]}
    if qf is None:
        return {"status": "rejected", "nontrivial": False, "features": feats + ["rejected:" + rej]}
    try:
        cols, mask = progeval.lib_columns(qf, nbits)
    except (boolsem.FreeSymbol, boolsem.UnsupportedNode):
        return {"status": "skip", "nontrivial": False, "features": feats + ["expressions-not-evaluable"]}
    argbits = [b for a in qf.args for b in a.bitvec]
    rets = list(qf.returns.bitvec)
    D = {"src": src, "fmt": fmt, "opt": case["opt"], "expressions": [(str(s), str(e)) for s, e in qf.expressions][:12]}
    objs = {}
    try:
        with progeval.time_limit(20):
            for f in ("pq_model", fmt):
                try:
                    objs[f] = qf.to_bqm(f)
                except progeval.Timeout:
                    raise
                except Exception as e:
                    return {"status": "rejected", "nontrivial": False, "features": feats + ["to_bqm-rejected:" + type(e).__name__]}
    except progeval.Timeout:
        return {"status": "skip", "nontrivial": False, "features": feats + ["timeout"]}
    # shape of the returned object
    shape_ok = {
        "pq_model": lambda o: hasattr(o, "to_qubo") and hasattr(o, "decode_sampleset"),
        "qubo": lambda o: isinstance(o, tuple) and len(o) == 2 and isinstance(o[0], dict),
        "ising": lambda o: isinstance(o, tuple) and len(o) == 3 and isinstance(o[0], dict) and isinstance(o[1], dict),
        "bqm": lambda o: hasattr(o, "linear") and hasattr(o, "quadratic"),
    }[fmt](objs[fmt])
    if not shape_ok:
        return {"status": "violation", "kind": "format-dispatch:" + fmt, "detail": dict(D, got=type(objs[fmt]).__name__), "features": feats}

    model = objs["pq_model"]
    mv = set(model.variables) if is_shim else None
    if not is_shim:
        return {"status": "skip", "nontrivial": False, "features": feats + ["real-pyqubo-not-modelled"]}
    aux = {v for v in mv if v.startswith("aux_")}
    foreign = sorted(v for v in mv if v not in argbits and not v.startswith("_ret") and v not in aux)
    if foreign:
        return {"status": "violation", "kind": "foreign-variable", "detail": dict(D, foreign=foreign), "features": feats}
    # number of true return bits per input row
    incols = boolsem.input_columns(nbits)
    count = [sum((cols[b] >> r) & 1 for b in rets) for r in range(1 << nbits)]
    best = min(count)
    want = {r for r in range(1 << nbits) if count[r] == best}
    # dependence
    for i, b in enumerate(argbits):
        # the energy (number of true return bits) depends on this argument bit for some setting of the others
        dep = any(count[r] != count[r ^ (1 << i)] for r in range(1 << nbits))
        if dep and b not in mv:
            return {"status": "violation", "kind": "missing-argument-variable", "detail": dict(D, variable=b, model_variables=sorted(mv)), "features": feats}
    others = sorted(mv - set(argbits))
    if len(others) > 10:
        return {"status": "skip", "nontrivial": False, "features": feats + ["too-many-model-variables"]}
    # energies of the polynomial: minimum over the non-input variables, per input row
    emin = []
    for r in range(1 << nbits):
        a0 = {b: (r >> i) & 1 for i, b in enumerate(argbits)}
        m = None
        for vals in itertools.product((0, 1), repeat=len(others)):
            a = dict(a0)
            a.update(zip(others, vals))
            e = eval_model(model, "pq_model", a)
            m = e if m is None or e < m else m
        emin.append(m)
    gmin = min(emin)
    got = {r for r in range(1 << nbits) if emin[r] <= gmin + TOL}
    if got != want:
        r = sorted(got ^ want)[0]
        return {
            "status": "violation",
            "kind": "ground-states",
            "detail": dict(D, input={b: (r >> i) & 1 for i, b in enumerate(argbits)}, energy=emin[r], min_energy=gmin, true_return_bits=count[r], fewest=best),
            "features": feats,
        }
    if best == 0 and abs(gmin) > TOL:
        return {"status": "violation", "kind": "zero-not-at-energy-zero", "detail": dict(D, min_energy=gmin), "features": feats}
    # the requested format gives the same energy per input (product variables consistent with their factors)
    if fmt != "pq_model":
        obj = objs[fmt]
        ov = model_vars(obj, fmt)
        prod = sorted(v for v in ov if " * " in v)
        extra = sorted(v for v in ov if v not in mv and v not in prod)
        if extra:
            return {"status": "violation", "kind": "foreign-variable:" + fmt, "detail": dict(D, foreign=extra), "features": feats}
        for r in range(0, 1 << nbits):
            a0 = {b: (r >> i) & 1 for i, b in enumerate(argbits)}
            m = None
            for vals in itertools.product((0, 1), repeat=len(others)):
                a = dict(a0)
                a.update(zip(others, vals))
                for v in ov:
                    a.setdefault(v, 0)
                for w in sorted(prod, key=lambda s: s.count("*")):
                    u, v = w.split(" * ", 1) if w.count(" * ") == 1 else (None, None)
                    if u is None:
                        # nested product label "x * y * z" is built left to right by the shim: (x * y) * z
                        parts = w.split(" * ")
                        val = 1
                        for p_ in parts:
                            val &= a.get(p_, 0)
                        a[w] = val
                    else:
                        a[w] = a.get(u, 0) & a.get(v, 0)
                e = eval_model(obj, fmt, a)
                m = e if m is None or e < m else m
            if abs(m - emin[r]) > 1e-6:
                return {"status": "violation", "kind": "format-energy:" + fmt, "detail": dict(D, input=a0, energy=m, model_energy=emin[r]), "features": feats}

    # decode_samples
    from qlasskit.bqm import decode_samples

    sample = {b: v for i, (b, v) in enumerate(zip(argbits, case["sample"])) if i not in case["drop"]}
    sample_full = dict(sample)
    for v in others:
        sample_full[v] = 0
    try:
        dec = decode_samples(qf, [sample_full])
    except Exception as e:
        return {"status": "violation", "kind": "decode_samples-raises", "detail": dict(D, sample=sample_full, exc=repr(e)[:300]), "features": feats}
    if len(dec) != 1 or set(dec[0].sample) != {a[0] for a in prog["args"]}:
        return {"status": "violation", "kind": "decode_samples-shape", "detail": dict(D, decoded=repr(dec)[:300]), "features": feats}
    from checks import c05

    pos = 0
    for nm, t in prog["args"]:
        n = gen_prog.nbits(t)
        names = argbits[pos : pos + n]
        pos += n
        val = dec[0].sample[nm]
        # re-encode the decoded value with the harness's decoder: find the bit pattern(s) consistent with the sample
        ok = False
        free = [i for i, b in enumerate(names) if b not in sample]
        for vals in itertools.product((0, 1), repeat=len(free)):
            bits = [sample.get(b, 0) for b in names]
            for i, v in zip(free, vals):
                bits[i] = v
            exp = c05.expected_value(t, bits)
            if same_sample_value(t, val, exp):
                ok = True
                break
        if not ok:
            return {"status": "violation", "kind": "decode_samples-value", "detail": dict(D, argument=nm, decoded=repr(val), sample=sample), "features": feats}
    const = all(cols[b] in (0, mask) for b in rets)
    nontrivial = (not const) and nbits >= 2 and 0 < len(want) < (1 << nbits)
    return {"status": "ok", "nontrivial": nontrivial, "features": feats, "rows": (1 << nbits) * (1 << len(others))}


def same_sample_value(t, got, exp):
    """like C05's comparison, but a bool leaf may be spelled 0/1 (samples carry integers)"""
    from checks import c05

    t = gen_prog.expand(t)
    if t[0] == "tuple":
        return isinstance(got, tuple) and len(got) == len(exp) and all(same_sample_value(x, g, e) for x, g, e in zip(t[1], got, exp))
    if t[0] == "bool":
        return got in (0, 1, True, False) and bool(got) == exp
    return c05.same_value(t, got, exp)


def health(status, features, n):
    rej = status.get("rejected", 0)
    out = [f"rejected={rej}"]
    if n and rej / n > 0.7:
        out.append(f"FAIL rejected fraction {rej}/{n}")
    return out
