"""C17 - command-line tools print what the library computes."""

import contextlib
import io
import itertools
import os
import shutil
import subprocess
import sys
import tempfile

from hypothesis import strategies as st

from vlib import boolparse, boolsem, gen_prog, progeval, synthcheck

ID = "C17"
SHARDS = 32
RULE = (
    "Hypothesis builds scripts with 1..3 @qlassf functions (generated programs with bool and non-bool returns, single- and "
    "multi-statement bodies, names in random alphabetical order; defined with the decorator, from a source string bound to a different module-level name (whose def name may be another function's module-level name), or through an alias) and an invocation: py2bexp with form in {none, anf, cnf, dnf, nnf} x "
    "format {sympy, dimacs} x entry point {a name, none for a single function} x output {stdout, file} x input {stdin, file}, or py2qasm "
    "with version {2.0, 3.0}; main() is run in-process (2% also as a subprocess). Oracle: the printed expression is parsed by an own reader, "
    "its names must be argument bits of the selected function and its truth table (all 2^n assignments) must equal the conjunction of the "
    "function's return bits; DIMACS must be equivalent under some injective numbering of the argument bits; normal-form shape predicates; "
    "py2qasm output must equal the QASM export of the same source compiled through the API. Non-trivial = selected function has >=2 "
    "definitions or >=2 return bits or the script has >=2 functions, and the conjunction is not constant; distinct by canonical JSON of the case"
)
ASSUMPTIONS = [
    "vlib.boolparse reads sympy's printing (self-checked against sympy on every case's own expressions)",
    "a line starting with 'Warning:' before DIMACS output is tolerated",
    "without an entry point only single-function scripts are judged (the choice among several is not specified)",
]


def budget(tier):
    return 400 if tier == "quick" else 15000


NAMES = ["alpha", "beta", "zeta", "fn", "g1", "Mid"]


def cfg():
    return gen_prog.Cfg(
        int_widths=[2, 2, 3], max_in_bits=5, max_args=2, depth=2, max_stmts=2, use_char=False, use_fixed=False,
        ret_kinds=("bool", "bool", "int", "tuple"),
    )


@st.composite
def case(draw):
    nf = draw(st.sampled_from([1, 1, 2, 3]))
    names = draw(st.permutations(NAMES))[:nf]
    funcs = []
    for nm in names:
        style = draw(st.sampled_from(["decorated", "decorated", "decorated", "string", "alias"]))
        # "string": NAME = qlassf("def inner_NAME ...");  "alias": @qlassf def orig_NAME ... ; NAME = orig_NAME
        defname = {"decorated": nm, "string": "inner_" + nm, "alias": "orig_" + nm}[style]
        if style == "string" and nf > 1 and draw(st.booleans()):
            # the source string defines a function called like ANOTHER module-level name of the script
            defname = draw(st.sampled_from([x for x in names if x != nm]))
        funcs.append({"name": nm, "style": style, "prog": draw(gen_prog.program(cfg(), name=defname))})
    tool = draw(st.sampled_from(["py2bexp", "py2bexp", "py2bexp", "py2qasm"]))
    plain = all(f["style"] == "decorated" for f in funcs)
    entry = draw(st.sampled_from(names)) if (nf > 1 or not plain or draw(st.booleans())) else None
    c = {
        "funcs": funcs,
        "tool": tool,
        "entry": entry,
        "out": draw(st.sampled_from(["stdout", "stdout", "file"])),
        "input": draw(st.sampled_from(["stdin", "file"])),
        "subprocess": draw(st.integers(0, 49)) == 0,
    }
    if tool == "py2bexp":
        c["form"] = draw(st.sampled_from([None, "anf", "cnf", "dnf", "nnf"]))
        c["format"] = draw(st.sampled_from(["sympy", "sympy", "dimacs"]))
    else:
        c["qasm_version"] = draw(st.sampled_from(["2.0", "3.0"]))
    return c


def strategy(tier):
    return case()


HEADER = "from typing import Tuple\nfrom qlasskit import qlassf, Qint, Qlist, Qmatrix, Qchar, Qfixed\n\n"


def script_of(case):
    parts = [HEADER]
    srcs = {}
    for f in case["funcs"]:
        src = gen_prog.render_lib(f["prog"])
        srcs[f["name"]] = src
        style = f.get("style", "decorated")
        if style == "string":
            parts.append(f"{f['name']} = qlassf({src!r})\n\n")
        elif style == "alias":
            parts.append("@qlassf\n" + src + "\n" + f"{f['name']} = {f['prog']['name']}\n\n")
        else:
            parts.append("@qlassf\n" + src + "\n")
    return "".join(parts), srcs


def run_tool(tool, argv, stdin_text, scratch):
    import importlib

    mod = importlib.import_module("qlasskit.tools." + tool)
    old_argv, old_stdin, old_tmp = sys.argv, sys.stdin, tempfile.tempdir
    sys.argv = [tool] + argv
    sys.stdin = io.StringIO(stdin_text)
    tempfile.tempdir = scratch
    out, err = io.StringIO(), io.StringIO()
    code = 0
    try:
        with contextlib.redirect_stdout(out), contextlib.redirect_stderr(err):
            mod.main()
    except SystemExit as e:
        code = e.code or 0
    finally:
        sys.argv, sys.stdin, tempfile.tempdir = old_argv, old_stdin, old_tmp
    return out.getvalue(), err.getvalue(), code


def parse_dimacs(text):
    lines = [ln for ln in text.strip().split("\n") if ln.strip() and not ln.startswith("Warning:") and not ln.startswith("c ")]
    if not lines or not lines[0].startswith("p cnf "):
        raise ValueError(f"no problem line: {lines[:1]}")
    _, _, nv, nc = lines[0].split()
    nv, nc = int(nv), int(nc)
    clauses = []
    for ln in lines[1:]:
        toks = ln.split()
        if toks[-1] != "0":
            raise ValueError(f"clause not terminated: {ln!r}")
        lits = [int(t) for t in toks[:-1]]
        if any(l == 0 or abs(l) > nv for l in lits):
            raise ValueError(f"literal out of range in {ln!r}")
        clauses.append(lits)
    if len(clauses) != nc:
        raise ValueError(f"header says {nc} clauses, body has {len(clauses)}")
    return nv, clauses


def judge(case):  # noqa: C901
    feats = ["tool:" + case["tool"], "funcs:%d" % len(case["funcs"]), "out:" + case["out"], "input:" + case["input"]]
    try:
        script, srcs = script_of(case)
    except gen_prog.GenTypeError:
        return {"status": "skip", "nontrivial": False, "features": feats + ["gen-type-error"]}
    # every function of the script must be acceptable to the library, else the script cannot be loaded at all
    api = {}
    for f in case["funcs"]:
        try:
            qf, rej = progeval.compile_lib(srcs[f["name"]], "default", to_compile=(case["tool"] == "py2qasm"))
        except progeval.Timeout:
            return {"status": "skip", "nontrivial": False, "features": feats + ["timeout"]}
        if qf is None:
            return {"status": "rejected", "nontrivial": False, "features": feats + ["rejected:" + rej]}
        api[f["name"]] = qf
    sel_name = case["entry"] or case["funcs"][0]["name"]
    sel = next(f for f in case["funcs"] if f["name"] == sel_name)
    qf = api[sel_name]
    prog = sel["prog"]
    nbits = sum(gen_prog.nbits(t) for _, t in prog["args"])

    scratch = tempfile.mkdtemp(prefix="c17_", dir=os.environ.get("VERIF_SCRATCH") or None)
    try:
        argv = []
        stdin_text = ""
        if case["input"] == "file":
            ip = os.path.join(scratch, "script_in.py")
            with open(ip, "w") as fh:
                fh.write(script)
            argv += ["-i", ip]
        else:
            stdin_text = script
        if case["entry"]:
            argv += ["-e", case["entry"]]
        op = None
        if case["out"] == "file":
            op = os.path.join(scratch, "result.txt")
            argv += ["-o", op]
        if case["tool"] == "py2bexp":
            if case["form"]:
                argv += ["-f", case["form"]]
            argv += ["-t", case["format"]]
            feats += ["form:%s" % case["form"], "format:" + case["format"]]
        else:
            argv += ["-q", case["qasm_version"]]
            feats.append("qasm:" + case["qasm_version"])
        D = {"script": script, "argv": argv}
        try:
            with progeval.time_limit(30):
                out, err, code = run_tool(case["tool"], argv, stdin_text, scratch)
        except progeval.Timeout:
            return {"status": "skip", "nontrivial": False, "features": feats + ["timeout"]}
        except Exception as e:
            return {"status": "violation", "kind": f"{case['tool']}-raises", "detail": dict(D, exc=repr(e)[:300]), "features": feats}
        if code != 0:
            return {"status": "violation", "kind": f"{case['tool']}-exit-code", "detail": dict(D, code=code, stderr=err[-300:]), "features": feats}
        if op:
            if not os.path.exists(op):
                return {"status": "violation", "kind": "output-file-missing", "detail": dict(D, stdout=out[:200]), "features": feats}
            text = open(op).read()
            stdout_rest = out
        else:
            text = out
            stdout_rest = ""
        if "No qlassf function found" in err:
            return {"status": "violation", "kind": "function-not-found", "detail": dict(D, stderr=err[-200:]), "features": feats}

        if case.get("subprocess"):
            env = dict(os.environ)
            env["PYTHONPATH"] = os.environ.get("VERIF_REPO", "/repo")
            env["TMPDIR"] = scratch
            r = subprocess.run([sys.executable, "-m", "qlasskit.tools." + case["tool"]] + argv, input=stdin_text, capture_output=True, text=True, env=env, timeout=120)
            text2 = open(op).read() if op else r.stdout
            if r.returncode != 0 or text2 != text:
                return {"status": "violation", "kind": "subprocess-differs", "detail": dict(D, inproc=text[:300], subproc=text2[:300], rc=r.returncode, stderr=r.stderr[-300:]), "features": feats}
            feats.append("subprocess-checked")

        # ---------------- py2qasm
        if case["tool"] == "py2qasm":
            from qlasskit.qcircuit.exporter_qasm import QasmExporter

            version = 3 if case["qasm_version"] == "3.0" else 2
            want = QasmExporter(version=version).export(qf.circuit(), "circuit")
            got = text[:-1] if (not op and text.endswith("\n")) else text
            if got != want:
                return {"status": "violation", "kind": "py2qasm-output", "detail": dict(D, got=got[:500], expected=want[:500]), "features": feats}
            if not got.startswith(f"OPENQASM {case['qasm_version']};"):
                return {"status": "violation", "kind": "py2qasm-header", "detail": dict(D, got=got[:80]), "features": feats}
            nontrivial = len(case["funcs"]) >= 2 or len(qf.expressions) >= 2
            return {"status": "ok", "nontrivial": nontrivial, "features": feats, "rows": 1}

        # ---------------- py2bexp
        try:
            cols, mask = progeval.lib_columns(qf, nbits)
        except (boolsem.FreeSymbol, boolsem.UnsupportedNode):
            return {"status": "skip", "nontrivial": False, "features": feats + ["expressions-not-evaluable"]}
        target = mask
        for b in qf.returns.bitvec:
            target &= cols[b]
        argbits = [b for a in qf.args for b in a.bitvec]
        incols = dict(zip(argbits, boolsem.input_columns(nbits)))
        const = target in (0, mask)
        nontrivial = (len(case["funcs"]) >= 2 or len(qf.expressions) >= 2 or len(qf.returns.bitvec) >= 2) and not const
        if case["format"] == "sympy":
            body = text.strip()
            try:
                tree = boolparse.parse(body)
            except boolparse.ParseError as e:
                return {"status": "violation", "kind": "py2bexp-unparsable", "detail": dict(D, output=text[:400], error=str(e)), "features": feats}
            foreign = sorted(boolparse.names(tree) - set(argbits))
            if foreign:
                return {"status": "violation", "kind": "py2bexp-foreign-symbol", "detail": dict(D, output=body[:400], foreign=foreign), "features": feats}
            got = boolparse.ev(tree, incols, mask)
            if got != target:
                r = boolsem.first_diff_row(got, target)
                return {
                    "status": "violation",
                    "kind": "py2bexp-not-equivalent",
                    "detail": dict(D, output=body[:400], assignment={b: (r >> i) & 1 for i, b in enumerate(argbits)}, expected=(target >> r) & 1),
                    "features": feats,
                }
            shape_ok = {None: lambda t: True, "cnf": boolparse.is_cnf, "dnf": boolparse.is_dnf, "nnf": boolparse.is_nnf, "anf": boolparse.is_anf}[case["form"]](tree)
            if not shape_ok:
                return {"status": "violation", "kind": "py2bexp-normal-form:" + str(case["form"]), "detail": dict(D, output=body[:400]), "features": feats}
            return {"status": "ok", "nontrivial": nontrivial, "features": feats, "rows": 1 << nbits}
        # dimacs
        try:
            nv, clauses = parse_dimacs(text)
        except ValueError as e:
            return {"status": "violation", "kind": "dimacs-syntax", "detail": dict(D, output=text[:400], error=str(e)), "features": feats}
        if nv > nbits:
            return {"status": "violation", "kind": "dimacs-too-many-variables", "detail": dict(D, output=text[:400], nbits=nbits), "features": feats}
        colsl = [incols[b] for b in argbits]
        found = False
        for inj in itertools.permutations(range(nbits), nv):
            c = mask
            for cl in clauses:
                o = 0
                for lit in cl:
                    v = colsl[inj[abs(lit) - 1]]
                    o |= v if lit > 0 else (mask ^ v)
                c &= o
            if c == target:
                found = True
                break
        if not found:
            return {"status": "violation", "kind": "dimacs-not-equivalent", "detail": dict(D, output=text[:400], n_solutions=bin(target).count("1")), "features": feats}
        if stdout_rest.strip() and not all(ln.startswith("Warning:") for ln in stdout_rest.strip().split("\n")):
            feats.append("extra-stdout")
        return {"status": "ok", "nontrivial": nontrivial, "features": feats, "rows": 1 << nbits}
    finally:
        shutil.rmtree(scratch, ignore_errors=True)


def _sympy_to_anf_wrong(case):
    """known finding C17-K1: sympy 1.12's to_anf collects operands in a set, so Not(X) with X == True in ANF
    (e.g. ~(a ^ ~a)) comes out as True; py2bexp -f anf inherits the wrong result. The predicate looks at the
    expression handed to to_anf."""
    if case.get("tool") != "py2bexp" or case.get("form") != "anf":
        return False
    import sympy
    from sympy.logic.boolalg import to_anf

    from qlasskit.boolopt.bool_optimizer import merge_expressions

    try:
        _, srcs = script_of(case)
        sel_name = case["entry"] or case["funcs"][0]["name"]
        qf, rej = progeval.compile_lib(srcs[sel_name], "default")
        if qf is None:
            return False
        comb = sympy.And(*[e for _, e in merge_expressions(qf.expressions)])
        anf = to_anf(comb)
        names = sorted({x.name for x in comb.free_symbols | getattr(anf, "free_symbols", set())})
        n = len(names)
        if n > 12:
            return False
        env = dict(zip(names, boolsem.input_columns(n)))
        mask = boolsem.full_mask(n)
        return boolsem.ev(comb, env, mask) != boolsem.ev(anf, env, mask)
    except (progeval.Timeout, gen_prog.GenTypeError, boolsem.UnsupportedNode, boolsem.FreeSymbol):
        return False


EXCLUDES = {"sympy_to_anf_wrong": _sympy_to_anf_wrong}


def selfcheck():
    """the sympy-text reader agrees with sympy on a fixed set of shapes"""
    from sympy import Symbol
    from sympy.logic.boolalg import ITE, And, Implies, Not, Or, Xor

    a, b, c = Symbol("a.0"), Symbol("_ret.1"), Symbol("c")
    exprs = [a & ~b | c, Xor(a, b & c), ~(a | b) & c, ITE(a, b, ~c), Implies(a, b | c), Or(And(a, b), Xor(b, c, a)), Not(Xor(a, b)), (a ^ b) | (b & ~(a ^ c))]
    names = ["a.0", "_ret.1", "c"]
    cols = dict(zip(names, boolsem.input_columns(3)))
    mask = boolsem.full_mask(3)
    for e in exprs:
        t = boolparse.parse(str(e))
        if boolparse.ev(t, cols, mask) != boolsem.ev(e, cols, mask):
            raise AssertionError(f"reader disagrees with sympy on {e}")


health = synthcheck.health
