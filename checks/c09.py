"""C09 - type codecs are exact and mutually inverse.

Enumerated part: every shipped Qint / Qfixed / Qchar type x every bit pattern.
Generated part: nested Tuple / Qlist / Qmatrix types with element values,
decoded by interpret_as_qtype from the measured-string form.
"""

from fractions import Fraction

from hypothesis import strategies as st

from vlib.runner import case_hash

ID = "C09"
LEVEL = "exploration"
CASE_TIMEOUT = 30  # seconds per case; a timed-out case is counted as skipped (symbolic blow-up on long feedback runs), never as a verdict
RULE = (
    "enumerated: all 2^w bit patterns of every shipped Qint/Qfixed/Qchar type (non-trivial = pattern not all-zero; "
    "distinct by (type, pattern)), and every ordered pair (type - or implementation base class QintImp/QfixedImp - used first, shipped type then judged) "
    "run in a forked child so that the verdict depends on the pair only; generated: Hypothesis builds nested Tuple/Qlist/Qmatrix types (depth<=3, <=24 bits) "
    "with element values, non-trivial = type has >=2 leaves of different widths; distinct by canonical JSON of (type, values)"
)
ASSUMPTIONS = [
    "the harness's own encoders state the documented layout: Qint little-endian, Qfixed integer part little-endian followed by fractional bits 2^-1..2^-f, Qchar little-endian code point",
    "measured-string convention: last character is bit 0 of the first element (test_qlassf.py TestQlassfEncodeInputDecodeOutput)",
    "int form of interpret_as_qtype is only exercised when the leading bit is 1 (padding of ints is pinned at the end of the list by test_types.py)",
]

QINT_W = [2, 3, 4, 5, 6, 7, 8, 12, 16]
QFIXED = [(1, 2), (1, 3), (1, 4), (1, 6), (2, 2), (2, 3), (2, 4), (2, 6), (3, 3), (3, 4), (3, 6), (4, 4), (4, 6)]


def budget(tier):
    return 2000 if tier == "quick" else 150000


# ----------------------------------------------------------------- encoders


def leaf_width(t):
    if t[0] == "bool":
        return 1
    if t[0] == "Qint":
        return t[1]
    if t[0] == "Qfixed":
        return t[1] + t[2]
    if t[0] == "Qchar":
        return 8
    raise ValueError(t)


def enc_leaf(t, v):
    """value -> list of bits (own encoder). Qfixed value is the raw pattern
    number k meaning k / 2^f."""
    if t[0] == "bool":
        return [bool(v)]
    if t[0] == "Qint":
        return [bool((v >> k) & 1) for k in range(t[1])]
    if t[0] == "Qchar":
        return [bool((v >> k) & 1) for k in range(8)]
    if t[0] == "Qfixed":
        i, f = t[1], t[2]
        ip, fp = v >> f, v & ((1 << f) - 1)
        return [bool((ip >> k) & 1) for k in range(i)] + [bool((fp >> (f - 1 - j)) & 1) for j in range(f)]
    raise ValueError(t)


def leaf_value(t, v):
    if t[0] == "bool":
        return bool(v)
    if t[0] == "Qint":
        return v
    if t[0] == "Qchar":
        return chr(v)
    if t[0] == "Qfixed":
        return Fraction(v, 1 << t[2])
    raise ValueError(t)


def lib_type(t):
    import typing

    import qlasskit.types as qt

    if t[0] == "bool":
        return bool
    if t[0] == "Qint":
        return getattr(qt, f"Qint{t[1]}")
    if t[0] == "Qfixed":
        return getattr(qt, f"Qfixed{t[1]}_{t[2]}")
    if t[0] == "Qchar":
        return qt.Qchar
    if t[0] == "Tuple":
        return typing.Tuple[tuple(lib_type(x) for x in t[1])]
    if t[0] in ("Qlist", "Qmatrix"):
        # The runtime Qlist[T,n] / Qmatrix[T,n,m] objects accept classes only
        # (isinstance(T, type) guard); for container element types the
        # equivalent Tuple type is what annotations are rewritten to.
        if t[1][0] in ("bool", "Qint", "Qfixed", "Qchar"):
            if t[0] == "Qlist":
                return qt.Qlist[lib_type(t[1]), t[2]]
            return qt.Qmatrix[lib_type(t[1]), t[2], t[3]]
        return lib_type(expand(t))
    raise ValueError(t)


def expand(t):
    """Container types as plain nested Tuple trees (what the metaclasses build)."""
    if t[0] == "Tuple":
        return ["Tuple", [expand(x) for x in t[1]]]
    if t[0] == "Qlist":
        return ["Tuple", [expand(t[1])] * t[2]]
    if t[0] == "Qmatrix":
        # Qmatrix[T, n, m] -> Tuple[(Tuple[(T,)*n],)*m]
        return ["Tuple", [["Tuple", [expand(t[1])] * t[2]]] * t[3]]
    return t


def leaves(t):
    t = expand(t)
    if t[0] == "Tuple":
        out = []
        for x in t[1]:
            out.extend(leaves(x))
        return out
    return [t]


def total_bits(t):
    return sum(leaf_width(x) for x in leaves(t))


def build_expected(t, vals_iter):
    t = expand(t)
    if t[0] == "Tuple":
        return tuple(build_expected(x, vals_iter) for x in t[1])
    v = next(vals_iter)
    return leaf_value(t, v)


def values_equal(t, got, exp):
    t = expand(t)
    if t[0] == "Tuple":
        if not isinstance(got, tuple) or len(got) != len(exp):
            return False
        return all(values_equal(x, g, e) for x, g, e in zip(t[1], got, exp))
    if t[0] == "bool":
        return isinstance(got, bool) and got == exp
    if t[0] == "Qint":
        return isinstance(got, int) and not isinstance(got, bool) and int(got) == exp and type(got).__name__ == f"Qint{t[1]}"
    if t[0] == "Qchar":
        return isinstance(got, str) and str(got) == exp
    if t[0] == "Qfixed":
        return isinstance(got, float) and Fraction(float(got)) == exp
    return False


# -------------------------------------------------------------- strategies

LEAVES = (
    [["bool"]] * 3
    + [["Qint", w] for w in QINT_W if w <= 8]
    + [["Qint", 12]]
    + [["Qfixed", i, f] for (i, f) in QFIXED]
    + [["Qchar"]]
)


@st.composite
def type_tree(draw, depth, budget_bits):
    cands = [x for x in LEAVES if leaf_width(x) <= budget_bits]
    if depth == 0 or budget_bits < 2 or draw(st.integers(0, 9)) < 3:
        return draw(st.sampled_from(cands))
    kind = draw(st.sampled_from(["Tuple", "Tuple", "Qlist", "Qmatrix"]))
    if kind == "Tuple":
        n = draw(st.integers(1, 4))
        elts = []
        rem = budget_bits
        for k in range(n):
            if rem < 1:
                break
            share = max(1, rem // (n - k)) if draw(st.booleans()) else rem
            e = draw(type_tree(depth - 1, share))
            rem -= total_bits(e)
            elts.append(e)
        return ["Tuple", elts]
    if kind == "Qlist":
        n = draw(st.integers(1, 4))
        e = draw(type_tree(depth - 1, max(1, budget_bits // n)))
        return ["Qlist", e, n]
    n = draw(st.integers(1, 3))
    m = draw(st.integers(1, 3))
    e = draw(type_tree(max(0, depth - 2), max(1, budget_bits // (n * m))))
    return ["Qmatrix", e, n, m]


@st.composite
def nested_case(draw):
    t = draw(type_tree(3, 24))
    vals = []
    for lf in leaves(t):
        w = leaf_width(lf)
        vals.append(draw(st.integers(0, (1 << w) - 1)))
    form = draw(st.sampled_from(["str", "list", "int", "str_long"]))
    return {"type": t, "values": vals, "form": form}


def strategy(tier):
    return nested_case()


# -------------------------------------------------------------------- judge


def judge(case):
    from qlasskit.types import interpret_as_qtype

    t, vals, form = case["type"], case["values"], case["form"]
    lv = leaves(t)
    bits = []
    for lf, v in zip(lv, vals):
        bits.extend(enc_leaf(lf, v))
    n = len(bits)
    measured = "".join("1" if b else "0" for b in bits)[::-1]
    feats = ["form:" + form, "leaves:%d" % min(len(lv), 6), "top:" + t[0]]
    widths = {leaf_width(x) for x in lv}
    nontrivial = len(lv) >= 2 and len(widths) >= 2

    T = lib_type(t)
    exp_struct = expand(t)
    expected = build_expected(t, iter(vals))

    if form == "str":
        arg = measured
    elif form == "str_long":
        # a longer register reading: extra (higher) qubits are to the left
        arg = "10" + measured
    elif form == "list":
        arg = [c == "1" for c in measured]
    else:
        if not measured.startswith("1"):
            return {"status": "skip", "nontrivial": False, "features": feats + ["int-ambiguous"]}
        arg = int(measured, 2)
    try:
        got = interpret_as_qtype(arg, T, n)
    except Exception as e:
        return {"status": "violation", "kind": "interpret-raises", "detail": {"exc": repr(e), "measured": measured}, "features": feats}
    ok = values_equal(t, got, expected)
    if ok and form == "list":
        # the caller's outcome decoded a second time (same list object) still spells the same value
        try:
            again = interpret_as_qtype(arg, T, n)
        except Exception as e:
            return {"status": "violation", "kind": "interpret-raises", "detail": {"exc": repr(e), "measured": measured, "call": "second"}, "features": feats}
        if not values_equal(t, again, expected):
            return {"status": "violation", "kind": "second-decode-differs:list", "detail": {"measured": measured, "first": repr(got), "second": repr(again)}, "features": feats}
    if not ok:
        return {
            "status": "violation",
            "kind": "nested-decode-mismatch:" + form,
            "detail": {"measured": measured, "got": repr(got), "expected": repr(expected)},
            "features": feats,
        }
    return {"status": "ok", "nontrivial": nontrivial, "features": feats, "rows": 1}


# --------------------------------------------------------------- enumerated


def _enum_type(args):
    """Check every bit pattern lo..hi of one shipped type."""
    tdesc, lo, hi = args
    import qlasskit.types as qt
    from qlasskit.types import const_to_qtype

    T = lib_type(tdesc)
    w = leaf_width(tdesc)
    name = T.__name__
    fam = tdesc[0]
    viol = []
    keys = []
    n = 0

    def bad(kind, v, **kw):
        if len([1 for k, _, _ in viol if k == kind]) == 0:
            viol.append((kind, {"type": tdesc, "pattern": v}, kw))

    for v in range(lo, hi):
        n += 1
        bits = enc_leaf(tdesc, v)
        s = "".join("1" if b else "0" for b in bits)
        value = leaf_value(tdesc, v)
        if v:
            keys.append(case_hash([name, v]))
        try:
            o = T.from_bool(list(bits))
            # decoded value is exact
            if tdesc[0] == "Qint":
                okv = int(o) == value and getattr(o, "value", None) == value
            elif tdesc[0] == "Qchar":
                okv = str(o) == value
            else:
                okv = Fraction(float(o)) == value and Fraction(float(o.value)) == value
            if not okv:
                bad("from_bool-value:" + fam, v, type=name, got=repr(o), expected=str(value))
            back = o.to_bool()
            if [bool(b) for b in back] != bits or len(back) != w:
                bad("to_bool-roundtrip:" + fam, v, type=name, bits=s, back="".join("1" if b else "0" for b in back))
            o2 = T.from_bin(s)
            if [bool(b) for b in o2.to_bool()] != bits:
                bad("from_bin-roundtrip:" + fam, v, type=name, bits=s)
            if o.to_bin() != s:
                bad("to_bin:" + fam, v, type=name, bits=s, got=o.to_bin())
            # constructing from the value (runtime encoding)
            pyval = value if tdesc[0] != "Qfixed" else float(value)
            rt = T(pyval).to_bool()
            if [bool(b) for b in rt] != bits:
                bad("runtime-encoding:" + fam, v, type=name, bits=s, got="".join("1" if b else "0" for b in rt))
            ct, cb = T.const(pyval)
            if ct is not T or [bool(b) for b in cb] != bits or len(cb) != w:
                bad("const-encoding:" + fam, v, type=name, bits=s, got="".join("1" if b else "0" for b in cb), ctype=getattr(ct, "__name__", str(ct)))
            if w <= 12:
                amp = T(pyval).to_amplitudes()
                idx = sum((1 << k) for k in range(w) if bits[k])
                if len(amp) != (1 << w) or amp[idx] != 1 or sum(1 for a in amp if a != 0) != 1:
                    hot = [i for i, a in enumerate(amp) if a != 0]
                    bad("amplitudes:" + fam, v, type=name, bits=s, expected_index=idx, hot=hot[:4], length=len(amp))
            # constant type inference
            if tdesc[0] in ("Qint", "Qchar") or (tdesc[0] == "Qfixed"):
                it, ib = const_to_qtype(pyval)
                ibits = [bool(b) for b in ib]
                if tdesc[0] == "Qint":
                    holds = hasattr(it, "BIT_SIZE") and value < (1 << it.BIT_SIZE) and len(ibits) == it.BIT_SIZE
                    same = holds and ibits == [bool((value >> k) & 1) for k in range(it.BIT_SIZE)] and int(it.from_bool(ibits)) == value
                    if not same:
                        bad("const_to_qtype:" + fam, v, type=name, inferred=getattr(it, "__name__", str(it)), bits="".join("1" if b else "0" for b in ibits))
                elif tdesc[0] == "Qchar":
                    if it is not qt.Qchar or ibits != bits:
                        bad("const_to_qtype:" + fam, v, type=name, inferred=getattr(it, "__name__", str(it)))
                else:
                    # compile-time encoding equals the runtime encoding in the inferred type
                    if ibits != [bool(b) for b in it(pyval).to_bool()] or len(ibits) != it.BIT_SIZE:
                        bad("const_to_qtype:" + fam, v, type=name, inferred=getattr(it, "__name__", str(it)))
        except Exception as e:  # a codec raising on an in-range pattern is a violation
            bad("codec-raises:" + fam, v, type=name, exc=repr(e))
    return {"n": n, "keys": keys, "viol": viol, "type": name}


# ------------------------------------------------------- order of first use

BASE_FIRST = ["QintImp", "QfixedImp"]  # implementation base classes in qlasskit.types (usable types with a BIT_SIZE of their own)


def all_descs():
    return [["Qint", w] for w in QINT_W] + [["Qfixed", i, f] for (i, f) in QFIXED] + [["Qchar"]]


def _order_child(case):
    """runs in a forked child: use the first type, then judge (a slice of) the second one"""
    import qlasskit.types as qt

    first, then = case["order"]
    if isinstance(first, str):
        T1 = getattr(qt, first)
        w1 = T1.BIT_SIZE
        for v in (0, 1, (1 << w1) - 1, (1 << w1) // 3):
            try:
                o = T1.from_bool([bool((v >> k) & 1) for k in range(w1)])
                o.to_bool()
                T1.const(o if not isinstance(o, float) else float(o))
            except Exception:
                pass  # the base class's own results are not judged, only its influence on the shipped types
    else:
        w1 = leaf_width(first)
        r1 = _enum_type((first, 0, min(1 << w1, 8)))
        if r1["viol"]:
            return {"viol": r1["viol"], "n": r1["n"]}
    w2 = leaf_width(then)
    total = 1 << w2
    if total <= 256:
        r2 = _enum_type((then, 0, total))
        return {"viol": r2["viol"], "n": r2["n"]}
    n = 0
    for lo in (0, total // 3, total - 96):
        r2 = _enum_type((then, lo, lo + 96))
        n += r2["n"]
        if r2["viol"]:
            return {"viol": r2["viol"], "n": n}
    return {"viol": [], "n": n}


def judge_order(case):
    from vlib import forkrun

    feats = ["first-use-order"]
    r = forkrun.run_in_fork(_order_child, case, timeout=50)
    if r["viol"]:
        k, c, d = r["viol"][0]
        return {"status": "violation", "kind": "after-other-type:" + k, "detail": dict(d, first_used=case["order"][0], pattern=c.get("pattern")), "features": feats}
    return {"status": "ok", "nontrivial": True, "features": feats, "rows": r["n"]}


def _run_order(case):
    import traceback

    try:
        return {"case": case, "res": judge_order(case)}
    except Exception:
        return {"case": case, "error": traceback.format_exc()}


def exhaustive(tier, pool):
    # (a) every ordered pair (type used first, type judged): each pair in a forked child of a worker that has not
    #     touched the codecs yet, so that the verdict depends on the pair only
    descs0 = all_descs()
    ocases = [{"order": [a, b]} for a in BASE_FIRST + descs0 for b in descs0 if a != b]
    ores = pool.map(_run_order, ocases, chunksize=8)
    oviol = []
    okeys = []
    on = 0
    for r in ores:
        if "error" in r:
            raise RuntimeError("order case crashed: " + r["error"] + "\n" + str(r["case"]))
        on += r["res"].get("rows", 0)
        if r["res"]["status"] == "violation":
            if r["res"]["kind"] not in [x[0] for x in oviol]:
                oviol.append((r["res"]["kind"], r["case"], r["res"]["detail"]))
        else:
            okeys.append(case_hash(["order", r["case"]["order"]]))
    tasks = []
    descs = all_descs()
    for d in descs:
        w = leaf_width(d)
        total = 1 << w
        step = 4096 if w <= 12 else 8192
        if w == 12:
            step = 512  # amplitudes are 4096 long
        for lo in range(0, total, step):
            tasks.append((d, lo, min(total, lo + step)))
    res = pool.map(_enum_type, tasks, chunksize=1)
    n = sum(r["n"] for r in res)
    keys = []
    viol = []
    per_type = {}
    for r in res:
        keys.extend(r["keys"])
        per_type[r["type"]] = per_type.get(r["type"], 0) + r["n"]
        for k, c, d in r["viol"]:
            if k not in [x[0] for x in viol]:
                viol.append((k, c, d))
    return {
        "evaluations": n + len(ocases),
        "keys": keys + okeys,
        "samples": [{"type": ["Qfixed", 4, 4], "pattern": 17}, {"type": ["Qint", 16], "pattern": 40000}, {"order": ["QfixedImp", ["Qfixed", 2, 6]]}],
        "violations": oviol + viol,
        "exhaustive": True,
        "patterns_per_type": per_type,
        "features": {"first-use-order-pairs": len(ocases), "first-use-order-patterns": on},
        "what": "all bit patterns of all shipped base types: from_bool/to_bool/from_bin/to_bin/const/runtime encoding/to_amplitudes(w<=12)/const_to_qtype; "
        "plus every ordered pair (type or implementation base class used first, shipped type judged on all / 288 patterns) in a forked child",
    }


def judge_enum(case):
    r = _enum_type((case["type"], case["pattern"], case["pattern"] + 1))
    if r["viol"]:
        k, c, d = r["viol"][0]
        return {"status": "violation", "kind": k, "detail": d, "features": []}
    return {"status": "ok", "nontrivial": True, "features": []}


_judge_nested = judge


def judge(case):  # noqa: F811  (dispatch on case shape so that enumerated witnesses replay too)
    if "pattern" in case:
        return judge_enum(case)
    if "order" in case:
        return judge_order(case)
    return _judge_nested(case)
