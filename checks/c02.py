"""C02 - the circuit computes the function's boolean expressions."""

from vlib import synthcheck

ID = "C02"
SHARDS = 64
RULE = (
    "Hypothesis builds programs (50% boolean-shape programs: nested and/or/not/^/==/!=/if-else over 3..6 bool operands with shared "
    "intermediates; 30% small-integer programs; 20% general programs) x optimizer {default, fast} x uncompute {on, off} x {compiled once, QlassF.compile() called again with the same or the "
    "other uncompute setting - the circuit left by the last compile() is judged}; the compiled "
    "circuit is simulated (bit-parallel reversible simulator) on ALL 2^n basis inputs and every return bit's qubit is compared with the "
    "library's own expression for that bit (own evaluator). Non-trivial = (>=1 gate with >=2 controls or >=8 gates) and the function is "
    "neither constant nor a projection of single input bits; distinct by canonical JSON of (program, optimizer, uncompute)"
)
ASSUMPTIONS = [
    "the reference for each output qubit is the library's own expression list (agreement of that list with the source is C01)",
    "vlib.sims reversible simulator and vlib.boolsem evaluator",
    "circuits with non-classical gates (only the Q.* escape produces them) are out of domain and not generated",
]


def budget(tier):
    return 1200 if tier == "quick" else 40000


def strategy(tier):
    return synthcheck.case()


def judge(case):
    return synthcheck.judge(case, "c02")


health = synthcheck.health
