"""C04 - boolean optimizer profiles (and every single step) preserve meaning."""

from hypothesis import strategies as st

from vlib import boolsem, gen_bexp

ID = "C04"
CASE_TIMEOUT = 30  # seconds per case; a timed-out case is counted as skipped (symbolic blow-up on long feedback runs), never as a verdict
RULE = (
    "Hypothesis generates SSA definition lists (1..6 inputs, 0..3 intermediates, 1..3 return symbols, depth<=3, n-ary And/Or/Xor, "
    "Not, ITE, Implies, constants, shared sub-terms, shapes that almost match each rewrite rule), built evaluated or unevaluated, "
    "and one subject: defaultOptimizer, fastOptimizer or a single step; inner quantifier: all 2^n assignments. "
    "Non-trivial = the step changed the list structurally and some return symbol depends on >=2 inputs; distinct by canonical JSON of (list, subject)"
)
ASSUMPTIONS = [
    "vlib.boolsem column evaluator with sequential list semantics is the meaning of a definition list",
    "lists are in SSA form (front-end lists with re-definitions reach the optimizer through C01/C02 instead)",
]

SUBJECTS = ["default", "fast", "merge", "cse", "ite", "implies", "or2xor", "or2and", "obvious", "merge+cse"]


def budget(tier):
    return 4000 if tier == "quick" else 200000


@st.composite
def case(draw):
    lst = draw(gen_bexp.ssa_list())
    subj = draw(st.sampled_from(SUBJECTS + ["default", "fast", "or2xor", "obvious"]))
    if lst.get("chain") and draw(st.booleans()):
        subj = draw(st.sampled_from(["cse", "cse", "merge+cse", "default"]))
    ev = draw(st.integers(0, 6)) > 0
    # unevaluated trees only without constants: sympy itself mishandles forms such as
    # Not(true, evaluate=False) in simplify_logic, which is not the library's doing
    if not ev and '["c",' in __import__("json").dumps(lst["defs"]).replace(" ", ""):
        ev = True
    return {"list": lst, "subject": subj, "evaluate": ev}


def strategy(tier):
    return case()


def get_subject(name):
    from qlasskit.boolopt import bool_optimizer as bo
    from qlasskit.boolopt import exp_transformers as et

    P = bo.BoolOptimizerProfile
    return {
        "default": bo.defaultOptimizer,
        "fast": bo.fastOptimizer,
        "merge": P([bo.merge_expressions]),
        "cse": P([bo.apply_cse]),
        "merge+cse": P([bo.merge_expressions, bo.apply_cse]),
        "ite": P([et.remove_ITE()]),
        "implies": P([et.remove_Implies()]),
        "or2xor": P([et.transform_or2xor()]),
        "or2and": P([et.transform_or2and()]),
        "obvious": P([et.remove_obvious_expr()]),
    }[name]


def depends_on(col, incols, mask, n):
    """number of inputs the column depends on"""
    cnt = 0
    for i in range(n):
        half = 1 << i
        # compare col with col shifted by flipping input i
        lo = col & (mask ^ incols[i])  # rows where bit i = 0
        hi = (col & incols[i]) >> half
        if lo != hi:
            cnt += 1
    return cnt


def judge(case):
    from sympy import srepr

    L = case["list"]
    inputs = L["inputs"]
    n = len(inputs)
    feats = ["subject:" + case["subject"], "eval:%s" % case["evaluate"], "inputs:%d" % n]
    try:
        exps = gen_bexp.list_to_sympy(L["defs"], case["evaluate"])
    except Exception as e:
        return {"status": "skip", "nontrivial": False, "features": feats + ["build-failed:" + type(e).__name__]}
    mask = boolsem.full_mask(n)
    cols = boolsem.input_columns(n)
    env0 = dict(zip(inputs, cols))
    try:
        ref = boolsem.ev_list(exps, env0, mask)
    except boolsem.UnsupportedNode as e:
        return {"status": "skip", "nontrivial": False, "features": feats + ["unsupported:" + str(e)]}
    rets = [s.name for s, _ in exps if s.name.startswith("_ret")]
    before = [(srepr(s), srepr(e)) for s, e in exps]
    subj = get_subject(case["subject"])
    try:
        out = subj.apply(list(exps))
    except Exception as e:
        return {"status": "violation", "kind": "optimizer-raises:" + case["subject"], "detail": {"exc": repr(e)[:300], "list": [(str(s), str(x)) for s, x in exps]}, "features": feats}
    after = [(srepr(s), srepr(e)) for s, e in exps]
    if before != after:
        return {"status": "violation", "kind": "input-list-mutated:" + case["subject"], "detail": {}, "features": feats}
    try:
        got = boolsem.ev_list(out, env0, mask)
    except boolsem.FreeSymbol as fs:
        return {
            "status": "violation",
            "kind": "free-symbol:" + case["subject"],
            "detail": {"symbol": str(fs), "in": [(str(s), str(x)) for s, x in exps], "out": [(str(s), str(x)) for s, x in out]},
            "features": feats,
        }
    except boolsem.UnsupportedNode as e:
        return {"status": "violation", "kind": "non-boolean-node:" + case["subject"], "detail": {"node": str(e)}, "features": feats}
    out_names = [s.name for s, _ in out]
    for r in rets:
        if r not in out_names:
            return {"status": "violation", "kind": "return-symbol-lost:" + case["subject"], "detail": {"symbol": r, "out": [(str(s), str(x)) for s, x in out]}, "features": feats}
        if got[r] != ref[r]:
            row = boolsem.first_diff_row(got[r], ref[r])
            return {
                "status": "violation",
                "kind": "meaning-changed:" + case["subject"],
                "detail": {
                    "symbol": r,
                    "assignment": {nm: (row >> i) & 1 for i, nm in enumerate(inputs)},
                    "in": [(str(s), str(x)) for s, x in exps],
                    "out": [(str(s), str(x)) for s, x in out],
                },
                "features": feats,
            }
    changed = [(srepr(s), srepr(e)) for s, e in out] != before
    dep = max(depends_on(ref[r], cols, mask, n) for r in rets)
    if changed:
        feats.append("changed")
    return {"status": "ok", "nontrivial": changed and dep >= 2, "features": feats, "rows": 1 << n}
