"""C16 - Deutsch-Jozsa, Bernstein-Vazirani, Simon circuits meet textbook guarantees."""

import itertools

from hypothesis import strategies as st

from vlib import algos, progeval

ID = "C16"
TOL = 1e-9
RULE = (
    "enumerated: Deutsch-Jozsa on EVERY constant and balanced truth table over 1, 2, 3 input bits x every argument shape (bool / Qint[n] / "
    "Tuple[bool..] / Qlist[bool,n]) x every syntactic form (DNF, Shannon if-expressions, xor of minterms, list lookup); Bernstein-Vazirani "
    "on EVERY secret over 1..5 bits through secret_oracle and three independent forms (xor of selected bits, parity loop, parity through local temporaries) x shapes x both optimizers; Simon on "
    "EVERY non-zero period over 2..4 bits with 3 two-to-one functions each (relabelled representatives) x forms (lookup, bit algebra); "
    "generated: Hypothesis samples balanced tables on 4 bits and Simon relabellings. Oracle: exact output distribution from the dense "
    "state-vector simulator (tolerance 1e-9) and decode_output of the certain outcome. Non-trivial = function not constant, or constant on "
    ">=2 bits; distinct by (algorithm, truth table / secret / period+relabelling, shape, form)"
)
ASSUMPTIONS = [
    "vlib.sims dense simulator (validated against qiskit), output_qubits[j] = bit j of the outcome",
    "the black boxes are compiled with the internal compiler, uncompute on, under both optimizer profiles",
]


def budget(tier):
    return 64 if tier == "quick" else 600


# ------------------------------------------------------------------ cases


def dj_tables(n):
    N = 1 << n
    yield [0] * N
    yield [1] * N
    for ones in itertools.combinations(range(N), N // 2):
        t = [0] * N
        for x in ones:
            t[x] = 1
        yield t


def enumerated_cases(tier):
    cases = []
    alt = 0
    for n in (1, 2, 3):
        for t in dj_tables(n):
            for shape in algos.shapes_for(n):
                for form in algos.forms_for(shape):
                    alt += 1
                    for opt in (("default", "fast") if tier == "thorough" or n <= 2 else (("default", "fast")[alt % 2],)):
                        cases.append({"alg": "dj", "n": n, "table": t, "shape": shape, "form": form, "opt": opt})
    for n in (1, 2, 3, 4, 5):
        for s in range(1 << n):
            if n >= 2:
                cases.append({"alg": "bv", "n": n, "secret": s, "shape": "qint", "form": "secret_oracle", "opt": "default"})
            for shape in algos.shapes_for(n):
                if shape == "tuple-qint2":
                    continue
                for form in ("xor-bits", "parity-loop", "parity-temps"):
                    for opt in ("default", "fast"):
                        cases.append({"alg": "bv", "n": n, "secret": s, "shape": shape, "form": form, "opt": opt})
    for n in (2, 3, 4):
        N = 1 << n
        for s in range(1, N):
            reps = sorted({min(x, x ^ s) for x in range(N)})
            relabels = [
                list(range(len(reps))),
                [(3 * i + 1) % N for i in range(len(reps))] if N >= 4 else [1, 0],
                [N - 1 - i for i in range(len(reps))],
            ]
            for k, rl in enumerate(relabels):
                if len(set(rl)) != len(rl):
                    rl = [N - 1 - 2 * i for i in range(len(reps))]
                for form in ("lookup", "bits"):
                    if n == 4 and form == "bits" and tier == "quick" and k > 0:
                        continue
                    alt += 1
                    cases.append({"alg": "simon", "n": n, "s": s, "relabel": rl, "form": form, "shape": "qint", "opt": ("default", "fast")[alt % 2]})
            # a two-to-one function into a register of another type than the argument (n-1 bits are enough)
            small = list(range(len(reps)))
            cases.append({"alg": "simon", "n": n, "s": s, "relabel": small, "form": "lookup", "shape": "qint", "opt": "default", "ret": "narrow"})
            cases.append({"alg": "simon", "n": n, "s": s, "relabel": small[::-1], "form": "bits", "shape": "qint", "opt": "fast", "ret": "tuple"})
    return cases


@st.composite
def sampled_case(draw):
    which = draw(st.integers(0, 2))
    if which <= 1:
        n = 4
        N = 16
        ones = draw(st.lists(st.integers(0, N - 1), min_size=8, max_size=8, unique=True))
        t = [1 if x in ones else 0 for x in range(N)]
        shape = draw(st.sampled_from(algos.shapes_for(n)))
        form = draw(st.sampled_from(algos.forms_for(shape)))
        return {"alg": "dj", "n": n, "table": t, "shape": shape, "form": form, "opt": draw(st.sampled_from(["default", "fast"]))}
    n = draw(st.sampled_from([3, 3, 4]))
    N = 1 << n
    s = draw(st.integers(1, N - 1))
    rl = draw(st.permutations(list(range(N))))[: N // 2]
    return {"alg": "simon", "n": n, "s": s, "relabel": list(rl), "form": draw(st.sampled_from(["lookup", "bits"])), "shape": "qint", "opt": draw(st.sampled_from(["default", "fast"]))}


def strategy(tier):
    return sampled_case()


# ------------------------------------------------------------------ sources


def bv_src(case):
    n, s, shape, form = case["n"], case["secret"], case["shape"], case["form"]
    idx = [i for i in range(n) if (s >> i) & 1]
    head = f"def oracle(a: {algos.arg_decl(n, shape)}) -> bool:\n"
    if form == "xor-bits":
        if not idx:
            return head + "    return False\n"
        return head + "    return " + " ^ ".join(algos.bit_expr(i, shape) for i in idx) + "\n"
    if form == "parity-loop":
        if not idx:
            return head + "    r = False\n    return r\n"
        if shape == "bool":
            return head + "    r = False\n    r = r ^ a\n    return r\n"
        if shape not in ("qint", "tuple", "qlist"):
            raise ValueError("a[i] is not the i-th search bit for this shape")
        return head + f"    r = False\n    for i in {idx}:\n        r = r ^ a[i]\n    return r\n"
    if form == "parity-temps":
        # the same parity written with local temporaries (they stay separate definitions under the fast optimizer)
        if not idx:
            return head + "    t0 = False\n    t1 = t0\n    return t1\n"
        lines = ["    t0 = False"]
        for j, i in enumerate(idx):
            lines.append(f"    t{j + 1} = t{j} ^ {algos.bit_expr(i, shape)}")
        lines.append(f"    return t{len(idx)}")
        return head + "\n".join(lines) + "\n"
    raise ValueError(form)


def simon_table(case):
    n, s, rl = case["n"], case["s"], case["relabel"]
    N = 1 << n
    reps = sorted({min(x, x ^ s) for x in range(N)})
    m = {r: rl[i] for i, r in enumerate(reps)}
    return [m[min(x, x ^ s)] for x in range(N)]


# -------------------------------------------------------------------- judge


def judge(case):  # noqa: C901
    from qlasskit import qlassf
    from qlasskit.algorithms import BernsteinVazirani, DeutschJozsa, Simon, secret_oracle

    alg, n = case["alg"], case["n"]
    feats = [f"alg:{alg}", f"n:{n}", "shape:" + case["shape"], "form:" + case["form"], "opt:" + case.get("opt", "default")]
    try:
        if alg == "dj":
            src = algos.bool_function_src("f", case["table"], n, case["shape"], case["form"])
        elif alg == "bv":
            src = f"secret_oracle({n}, {case['secret']})" if case["form"] == "secret_oracle" else bv_src(case)
        else:
            table = simon_table(case)
            rk = case.get("ret", "same")
            if rk == "same":
                src = algos.int_function_src("f", table, n, n, case["shape"], case["form"])
            elif n == 2:
                # two classes -> one output bit
                src = algos.bool_function_src("f", [v & 1 for v in table], n, case["shape"], "shannon" if case["form"] == "bits" else "lookup")
            elif rk == "narrow":
                src = algos.int_function_src("f", table, n, n - 1, case["shape"], case["form"])
            else:
                # Tuple[bool, ...] result built bit by bit
                m = n - 1
                parts = [algos.bool_body([(v >> k_) & 1 for v in table], n, case["shape"], "shannon") for k_ in range(m)]
                src = f"def f(a: {algos.arg_decl(n, case['shape'])}) -> Tuple[" + ", ".join(["bool"] * m) + "]:\n    return (" + ", ".join(parts) + ")\n"
    except ValueError:
        return {"status": "skip", "nontrivial": False, "features": feats + ["form-not-applicable"]}
    D = {"src": src, "case": {k: v for k, v in case.items() if k != "table"} if alg != "dj" else case}
    try:
        with progeval.time_limit(30):
            if alg == "bv" and case["form"] == "secret_oracle":
                qf = secret_oracle(n, case["secret"])
            else:
                qf = qlassf(src, to_compile=True, bool_optimizer=progeval.optimizer(case.get("opt", "default")))
            A = {"dj": DeutschJozsa, "bv": BernsteinVazirani, "simon": Simon}[alg](qf)
    except progeval.Timeout:
        return {"status": "skip", "nontrivial": False, "features": feats + ["timeout"]}
    except Exception as e:
        return {"status": "violation", "kind": f"{alg}-construction-raises", "detail": dict(D, exc=repr(e)[:300]), "features": feats}
    if A.circuit().num_qubits > 22:
        return {"status": "skip", "nontrivial": False, "features": feats + ["too-many-qubits"]}
    oq = list(A.output_qubits)
    if oq != list(range(n)):
        return {"status": "violation", "kind": f"{alg}-output-qubits", "detail": dict(D, output_qubits=oq), "features": feats}
    dist, nq = algos.output_distribution(A)
    feats.append("qubits:%d" % min(nq, 20))
    shape = case["shape"]

    def decoded(idx):
        return A.decode_output(algos.reading(idx, n))

    if alg == "dj":
        const = len(set(case["table"])) == 1
        p0 = float(dist[0])
        if const and abs(p0 - 1) > TOL:
            return {"status": "violation", "kind": "dj-constant-not-certain", "detail": dict(D, p_zero=p0), "features": feats}
        if not const and p0 > TOL:
            return {"status": "violation", "kind": "dj-balanced-measures-zero", "detail": dict(D, p_zero=p0), "features": feats}
        # decoded outputs: all-zero reading -> Constant, anything else -> Balanced
        try:
            d0 = decoded(0)
            others = [decoded(i) for i in range(1, 1 << n)]
        except Exception as e:
            return {"status": "violation", "kind": "dj-decode-raises", "detail": dict(D, exc=repr(e)[:200]), "features": feats}
        if d0 != "Constant" or any(o != "Balanced" for o in others):
            return {"status": "violation", "kind": "dj-decode", "detail": dict(D, zero=repr(d0), others=[repr(o) for o in others][:4]), "features": feats}
        return {"status": "ok", "nontrivial": (not const) or n >= 2, "features": feats, "rows": 1 << n}

    if alg == "bv":
        s = case["secret"]
        ps = float(dist[s])
        if abs(ps - 1) > TOL:
            return {"status": "violation", "kind": "bv-secret-not-certain", "detail": dict(D, p_secret=ps, argmax=int(dist.argmax())), "features": feats}
        try:
            got = decoded(s)
        except Exception as e:
            return {"status": "violation", "kind": "bv-decode-raises", "detail": dict(D, exc=repr(e)[:200]), "features": feats}
        if not algos.same_decoded(got, algos.value_of_index(s, n, shape), shape):
            return {"status": "violation", "kind": "bv-decode", "detail": dict(D, decoded=repr(got)), "features": feats}
        try:
            counts = A.decode_counts({algos.reading(s, n): 7})
        except Exception as e:
            return {"status": "violation", "kind": "bv-decode-raises", "detail": dict(D, exc=repr(e)[:200]), "features": feats}
        if list(counts.values()) != [7]:
            return {"status": "violation", "kind": "bv-decode-counts", "detail": dict(D, counts=repr(counts)), "features": feats}
        return {"status": "ok", "nontrivial": s != 0 or n >= 2, "features": feats, "rows": 1 << n}

    s = case["s"]
    want = 2.0 ** -(n - 1)
    for y in range(1 << n):
        par = bin(y & s).count("1") % 2
        p = float(dist[y])
        if par == 1 and p > TOL:
            return {"status": "violation", "kind": "simon-outcome-not-orthogonal", "detail": dict(D, y=y, p=p), "features": feats}
        if par == 0 and abs(p - want) > TOL:
            return {"status": "violation", "kind": "simon-not-uniform", "detail": dict(D, y=y, p=p, expected=want), "features": feats}
    try:
        got = decoded(s)
    except Exception as e:
        return {"status": "violation", "kind": "simon-decode-raises", "detail": dict(D, exc=repr(e)[:200]), "features": feats}
    if not algos.same_decoded(got, algos.value_of_index(s, n, shape), shape):
        return {"status": "violation", "kind": "simon-decode", "detail": dict(D, decoded=repr(got)), "features": feats}
    return {"status": "ok", "nontrivial": True, "features": feats, "rows": 1 << n}


# --------------------------------------------------------------- enumerated


def _run_enum(case):
    from vlib.runner import case_hash

    try:
        res = judge(case)
    except Exception:
        import traceback

        return {"case": case, "error": traceback.format_exc()}
    return {"case": case, "res": res, "key": case_hash(case)}


def exhaustive(tier, pool):
    cases = enumerated_cases(tier)
    results = pool.map(_run_enum, cases, chunksize=4)
    keys, viol, feats, samples = [], [], {}, []
    status = {}
    for r in results:
        if "error" in r:
            raise RuntimeError("enumerated case crashed: " + r["error"] + "\n" + str(r["case"]))
        res = r["res"]
        status[res["status"]] = status.get(res["status"], 0) + 1
        for f in res.get("features", ()):
            feats[f] = feats.get(f, 0) + 1
        if res["status"] == "ok" and res.get("nontrivial"):
            keys.append(r["key"])
            if len(samples) < 3 and r["case"]["alg"] != "dj":
                samples.append(r["case"])
        if res["status"] == "violation" and res["kind"] not in [v[0] for v in viol]:
            viol.append((res["kind"], r["case"], res.get("detail")))
    per_alg = {}
    for c in cases:
        per_alg[c["alg"]] = per_alg.get(c["alg"], 0) + 1
    return {
        "evaluations": len(cases),
        "keys": keys,
        "samples": samples,
        "violations": viol,
        "features": feats,
        "exhaustive": True,
        "status": status,
        "cases_per_algorithm": per_alg,
        "what": "DJ: all constant/balanced tables on 1..3 bits x shapes x forms; BV: all secrets on 1..5 bits x forms x shapes; Simon: all periods on 2..4 bits x 3 relabellings x forms",
    }
