"""C03 - compiled circuits are clean: inputs preserved, scratch qubits back to zero."""

from vlib import synthcheck

ID = "C03"
SHARDS = 64
RULE = (
    "same program generator as C02 (incl. local names starting with _ret / anc_ / q), optimizer {default, fast}, uncompute=True, in 40% of the cases reached by a "
    "second QlassF.compile(uncompute=True) on an object first compiled with uncompute False or True; after simulating ALL 2^n basis inputs every argument "
    "qubit must be unchanged and every qubit that is neither an argument nor mapped from a return bit must be zero. Non-trivial = the "
    "circuit has at least one scratch qubit touched by a gate and the function is not constant; distinct by canonical JSON of the case"
)
ASSUMPTIONS = [
    "output qubits are the qubits mapped from the return bit names (output_qubits itself is judged by C05)",
    "vlib.sims reversible simulator",
]


def budget(tier):
    return 1200 if tier == "quick" else 40000


def strategy(tier):
    return synthcheck.case(uncompute_opts=(True,))


def judge(case):
    return synthcheck.judge(case, "c03")


health = synthcheck.health
