"""C13 - exports denote the same operation on the same qubits."""

import math
import re

import numpy as np
from hypothesis import strategies as st

from vlib import gen_circ, gen_prog, progeval, sims, synthcheck

ID = "C13"
SHARDS = 32
TOL = 1e-8
CASE_TIMEOUT = 60  # seconds per case; a timed-out case is counted as skipped (symbolic blow-up on long feedback runs), never as a verdict
RULE = (
    "Hypothesis generates circuits on 1..5 qubits restricted, per exporter, to the gates that exporter handles (qiskit: X Y Z H S T P CX CZ "
    "CP CCX MCX MCZ mctrl(X) SWAP barrier; cirq: the same without P; sympy: X H CX SWAP CCX MCX barrier on <=4 qubits; QASM 2/3: all), plus compiled "
    "generated functions (aliased / dotted / re-defined qubit names) and circuits whose name table was edited through qc[name]=i / del qc[name] "
    "(aliases, default names on other indices, nameless qubits); every target {qiskit, cirq, sympy} x {circuit, gate} and QASM "
    "{2,3} x {circuit, gate} is exported and compared with the reference unitary (numpy dense simulation, little-endian; cirq after index "
    "bit-reversal), QASM through a reader of the emitted dialect (one formal per qubit in index order, same ops / qubits / parameters). "
    "Enumerated part: every gate kind x every ordered qubit choice on arity..arity+1 (<=4) qubits after a layer of H, for every target (a refusal of a "
    "gate outside the exporter's declared set is a clean rejection, an accepted export must be right). "
    "Non-trivial = >=1 multi-controlled or parameterised gate or aliased names, and >=2 qubits touched; distinct by canonical JSON of (circuit, target)"
)
ASSUMPTIONS = [
    "qiskit Operator, cirq.unitary and sympy represent are the meaning of their own objects",
    "the QASM dialect emitted by the library (space separated formals, one op per line, 2-decimal parameters) is the contract; parameters are compared within 0.005",
    "an exception for a gate outside an exporter's declared set is a clean rejection; one sympy/cirq case in five draws from the full gate list, and an export that is accepted must be right",
    "qutip and pennylane exporters cannot be imported in this sandbox and are not claimed",
]

GATES = {
    "qiskit": ["X", "Y", "Z", "H", "S", "T", "P", "CX", "CZ", "CP", "CCX", "MCX", "MCZ", "MCTX", "SWAP", "BARRIER"],
    "cirq": ["X", "Y", "Z", "H", "S", "T", "CX", "CZ", "CP", "CCX", "MCX", "MCZ", "MCTX", "SWAP", "BARRIER"],
    "sympy": ["X", "H", "CX", "SWAP", "CCX", "MCX", "BARRIER"],
    "qasm": ["X", "Y", "Z", "H", "S", "T", "P", "CX", "CZ", "CP", "CCX", "MCX", "MCZ", "MCTX", "SWAP", "BARRIER"],
}
TARGETS = [("qiskit", "circuit"), ("qiskit", "gate"), ("cirq", "circuit"), ("cirq", "gate"), ("sympy", "circuit"), ("sympy", "gate"),
           ("qasm3", "circuit"), ("qasm3", "gate"), ("qasm2", "circuit"), ("qasm2", "gate")]


def budget(tier):
    return 480 if tier == "quick" else 30000


@st.composite
def case(draw):
    fw, mode = draw(st.sampled_from(TARGETS))
    base = fw[:4] if fw.startswith("qasm") else fw
    if draw(st.integers(0, 9)) < 3 and base != "sympy":
        cfg = synthcheck.bool_shape_cfg() if draw(st.booleans()) else synthcheck.small_int_cfg()
        cfg.max_in_bits = 3
        cfg.max_args = 2
        cfg.depth = 2
        prog = draw(gen_prog.program(cfg))
        return {"kind": "compiled", "prog": prog, "opt": draw(st.sampled_from(["default", "fast"])), "fw": fw, "mode": mode}
    maxq = 4 if base == "sympy" else 5
    gset = GATES[base]
    if base in ("sympy", "cirq") and draw(st.integers(0, 99)) < 20:
        # gates outside the exporter's declared set: it may refuse them, but whatever it accepts must be right
        # (one extra gate kind at a time, so that an accepted kind is not hidden behind a refused one)
        gset = GATES[base] + [draw(st.sampled_from([g for g in GATES["qasm"] if g not in GATES[base]]))] * 3
    circ = draw(gen_circ.general_circuit(1, maxq, 10, gset))
    if "MCTX" in GATES[base] and circ["n"] >= 2 and draw(st.integers(0, 9)) < 3:
        # both kinds of generic multi-controlled gates with the same number of controls in one circuit
        k = draw(st.integers(1, min(circ["n"] - 1, 3)))
        pair = [["MCTX", draw(gen_circ.qubits(circ["n"], k + 1)), None], ["MCZ", draw(gen_circ.qubits(circ["n"], k + 1)), None]]
        if draw(st.booleans()):
            pair.reverse()
        pos = draw(st.integers(0, len(circ["gates"])))
        circ["gates"][pos:pos] = pair
    name = draw(st.sampled_from(["qc", "mygate", "h", "x", "f_1"]))
    out = {"kind": "circuit", "circ": circ, "name": name, "fw": fw, "mode": mode}
    if draw(st.integers(0, 99)) < 35:
        # qubit-name table edited through the public mapping API (qc[name] = i, del qc[name]): aliases, default
        # names pointing at other indices, qubits without any name
        n = circ["n"]
        pool = [f"q{i}" for i in range(n + 1)] + ["a", "b.0", "_ret", "anc_0"]
        ops = []
        for _ in range(draw(st.integers(1, 4))):
            if draw(st.booleans()):
                ops.append(["set", draw(st.sampled_from(pool)), draw(st.integers(0, n - 1))])
            else:
                ops.append(["del", draw(st.sampled_from(pool[:n]))])
        out["name_ops"] = ops
    return out


def strategy(tier):
    return case()


def enumerated_cases():
    """every gate kind x every ordered choice of qubits on n = arity, arity+1 (<= 4) qubits, after a layer of H
    (so that the exported state, the only thing the sympy circuit export shows, depends on the gate), for every target"""
    import itertools

    kinds = [("X", 1), ("Y", 1), ("Z", 1), ("H", 1), ("S", 1), ("T", 1), ("P", 1), ("CX", 2), ("CZ", 2), ("CP", 2), ("SWAP", 2), ("CCX", 3)]
    kinds += [(k, a) for k in ("MCZ", "MCTX") for a in (2, 3, 4)] + [("MCX", 4)]
    out = []
    for fw, mode in TARGETS:
        for nm, ar in kinds:
            for n in sorted({ar, min(4, ar + 1)}):
                for qs in itertools.permutations(range(n), ar):
                    p = math.pi / 4 if nm in ("P", "CP") else None
                    gates = [["H", [q], None] for q in range(n)] + [[nm, list(qs), p]]
                    out.append({"kind": "circuit", "circ": {"n": n, "gates": gates}, "name": "qc", "fw": fw, "mode": mode})
    return out


def _run_enum(case):
    import traceback

    try:
        return {"case": case, "res": judge(case)}
    except Exception:
        return {"case": case, "error": traceback.format_exc()}


def exhaustive(tier, pool):
    cases = enumerated_cases()
    results = pool.map(_run_enum, cases, chunksize=8)
    keys, viol, feats, samples = [], [], {}, []
    for r in results:
        if "error" in r:
            raise RuntimeError("enumerated case crashed: " + r["error"] + "\n" + str(r["case"]))
        res = r["res"]
        c = r["case"]
        tag = "single-gate:%s:%s" % (res["status"], c["fw"])
        feats[tag] = feats.get(tag, 0) + 1
        if res["status"] == "ok" and res.get("nontrivial"):
            keys.append("enum:" + synth_key(c))
            if len(samples) < 2 and c["circ"]["gates"][-1][0] in ("MCZ", "CP"):
                samples.append(c)
        if res["status"] == "violation" and res["kind"] not in [v[0] for v in viol]:
            viol.append((res["kind"], c, res.get("detail")))
    return {"evaluations": len(cases), "keys": keys, "samples": samples, "violations": viol, "features": feats, "exhaustive": False}


def synth_key(c):
    import json

    return json.dumps([c["fw"], c["mode"], c["circ"]], sort_keys=True)


def bitrev_perm(n):
    D = 1 << n
    return [int(format(i, f"0{n}b")[::-1], 2) if n else 0 for i in range(D)]


OP_RE = re.compile(r"^\t([a-z]+)(?:\(([-0-9.]+)\))?((?: \S+)*)$")


def parse_qasm(text, mode, version, gate_name, n):
    """-> (formals, ops [(base, ncontrols, [names], param)]) ; raises ValueError"""
    lines = text.split("\n")
    i = 0
    if mode == "circuit":
        want = "OPENQASM 3.0;" if version == 3 else "OPENQASM 2.0;"
        if lines[0] != want:
            raise ValueError(f"header {lines[0]!r}")
        i = 1
        while i < len(lines) and not lines[i].startswith("gate "):
            ln = lines[i].strip()
            if ln and not (ln.startswith("include ") or ln.startswith("qreg ")):
                raise ValueError(f"unexpected preamble line {ln!r}")
            if ln.startswith("qreg ") and ln != f"qreg q[{n}];":
                raise ValueError(f"qreg {ln!r}")
            i += 1
    head = lines[i]
    m = re.match(r"^gate (\S+) (.*) \{$", head) or re.match(r"^gate (\S+) ()\{$", head)
    if not m or m.group(1) != gate_name:
        raise ValueError(f"gate header {head!r}")
    formals = m.group(2).split()
    i += 1
    ops = []
    while i < len(lines) and lines[i] != "}":
        mo = OP_RE.match(lines[i])
        if not mo:
            raise ValueError(f"body line {lines[i]!r}")
        op, par, qs = mo.group(1), mo.group(2), mo.group(3).split()
        if op == "swap":
            base, nc = "SWAP", 0
        else:
            nc = 0
            while len(op) - nc > 1 and op[nc] == "c":
                nc += 1
            base = op[nc:].upper()
        ops.append((base, nc, qs, None if par is None else float(par)))
        i += 1
    if i >= len(lines):
        raise ValueError("unterminated gate body")
    rest = [ln for ln in lines[i + 1 :] if ln.strip()]
    if mode == "circuit":
        want = gate_name + " " + ",".join(f"q[{k}]" for k in range(n)) + ";"
        if rest != [want]:
            raise ValueError(f"application line {rest!r} != {want!r}")
    elif rest:
        raise ValueError(f"trailing text {rest!r}")
    return formals, ops


def judge(case):  # noqa: C901
    fw, mode = case["fw"], case["mode"]
    feats = [f"target:{fw}:{mode}", "kind:" + case["kind"]]
    if case["kind"] == "compiled":
        st_, payload = synthcheck.compile_case({"prog": case["prog"], "opt": case["opt"], "uncompute": True})
        if st_ != "ok":
            return payload
        qf = payload[0]
        qc = qf.circuit()
        descr = {"src": payload[1], "qubit_map": dict(qc.qubit_map)}
    else:
        qc = gen_circ.build(case["circ"], name=case["name"])
        descr = {"circuit": case["circ"], "name": case["name"]}
        for op in case.get("name_ops", ()):
            if op[0] == "set":
                qc[op[1]] = op[2]
            elif op[1] in qc:
                del qc[op[1]]
        if case.get("name_ops"):
            feats.append("edited-names")
            descr["qubit_map"] = dict(qc.qubit_map)
    n = qc.num_qubits
    if n > 7 or n < 1:
        return {"status": "skip", "nontrivial": False, "features": feats + ["too-many-qubits"]}
    sg = gen_circ.sigs(qc)
    descr["gates"] = [s[:3] for s in sg][:40]
    Uref = sims.unitary(n, qc.gates)
    before = list(sg)
    aliased = len(qc.qubit_map) != n or list(qc.qubit_map.items()) != [(f"q{i}", i) for i in range(n)]
    multi = any(s[1] >= 2 or s[3] is not None for s in sg)
    touched = set()
    for s in sg:
        touched.update(s[2])

    def viol(kind, **kw):
        return {"status": "violation", "kind": f"{kind}:{fw}:{mode}", "detail": dict(descr, **kw), "features": feats}

    base = fw[:4] if fw.startswith("qasm") else fw
    try:
        if base == "qasm":
            from qlasskit.qcircuit.exporter_qasm import QasmExporter

            version = 3 if fw == "qasm3" else 2
            exp = QasmExporter(version=version).export(qc, mode)
            if version == 3 and mode == "circuit" and qc.export("circuit", "qasm") != exp:
                return viol("default-qasm-export-differs")
        else:
            exp = qc.export(mode, base)
    except Exception as e:
        if case["kind"] == "circuit" and base in GATES and any(g[0] not in GATES[base] for g in case["circ"]["gates"]):
            return {"status": "rejected", "nontrivial": False, "features": feats + ["rejected-out-of-set-gate"]}
        return viol("export-raises", exc=repr(e)[:300])
    if case["kind"] == "circuit" and base in GATES and any(g[0] not in GATES[base] for g in case["circ"]["gates"]):
        feats.append("accepted-out-of-set-gate")
    if gen_circ.sigs(qc) != before:
        return viol("export-mutates-circuit")

    try:
        return _compare(case, qc, exp, base, fw, mode, n, sg, Uref, viol, feats, multi, aliased, touched, version if base == "qasm" else None)
    except (sims.UnknownGate, ValueError, TypeError, KeyError, AttributeError, IndexError):
        raise
    except Exception as e:  # the exported object cannot be used (raises when interpreted by its own framework)
        if "accepted-out-of-set-gate" in feats:
            # a lazily built export (cirq gate class) refuses the gate when it is used
            feats.remove("accepted-out-of-set-gate")
            return {"status": "rejected", "nontrivial": False, "features": feats + ["rejected-out-of-set-gate"]}
        return viol("exported-object-raises", exc=repr(e)[:300])


def _compare(case, qc, exp, base, fw, mode, n, sg, Uref, viol, feats, multi, aliased, touched, version):  # noqa: C901
    if base == "qiskit":
        from qiskit import QuantumCircuit
        from qiskit.quantum_info import Operator

        if exp.num_qubits != n:
            return viol("qubit-count", got=exp.num_qubits)
        if mode == "gate":
            want = qc.name + ("_" if hasattr(QuantumCircuit, qc.name) else "")
            if exp.name != want:
                return viol("gate-name", got=exp.name, expected=want)
            holder = QuantumCircuit(n)
            holder.append(exp, list(range(n)))
            U = Operator(holder).data
        else:
            U = Operator(exp).data
        if float(np.abs(U - Uref).max()) > TOL:
            return viol("unitary")
    elif base == "cirq":
        import cirq

        qubits = cirq.LineQubit.range(n)
        circ = cirq.Circuit(exp().on(*qubits)) if mode == "gate" else exp
        if mode == "circuit" and sorted(circ.all_qubits()) != qubits:
            return viol("qubit-set", got=str(sorted(circ.all_qubits())))
        U = cirq.unitary(circ) if n else np.eye(1)
        perm = bitrev_perm(n)
        U = U[np.ix_(perm, perm)]
        if float(np.abs(U - Uref).max()) > TOL:
            return viol("unitary")
    elif base == "sympy":
        from sympy.physics.quantum.qapply import qapply
        from sympy.physics.quantum.represent import represent

        nongates = [s for s in sg if s[0] != "BARRIER"]
        if mode == "gate":
            if not nongates:
                if exp is not None:
                    return viol("empty-circuit-export", got=str(exp))
            else:
                rep = represent(exp, nqubits=n)
                if hasattr(rep, "tolist"):
                    U = np.array(rep.tolist(), dtype=complex)
                else:  # sympy folded the product of gates into a scalar (X*X = 1)
                    U = complex(rep) * np.eye(1 << n, dtype=complex)
                if float(np.abs(U - Uref).max()) > TOL:
                    return viol("unitary")
        else:
            vec = np.array(represent(qapply(exp), nqubits=n).tolist(), dtype=complex).reshape(-1)
            if float(np.abs(vec - Uref[:, 0]).max()) > TOL:
                return viol("state")
    else:
        try:
            formals, ops = parse_qasm(exp, mode, version, qc.name, n)
        except ValueError as e:
            return viol("qasm-syntax", error=str(e), text=exp[:600])
        if len(formals) != n or len(set(formals)) != n:
            return viol("qasm-formals", formals=formals, num_qubits=n)
        for i, f in enumerate(formals):
            # a formal is either a name of qubit i or a fresh name (a qubit may have lost its name)
            if f in qc.qubit_map and qc.qubit_map[f] != i:
                return viol("qasm-formal-order", formals=formals, qubit_map=dict(qc.qubit_map))
        pos = {f: i for i, f in enumerate(formals)}
        want = [s for s in sg if s[0] != "BARRIER"]
        if len(ops) != len(want):
            return viol("qasm-op-count", ops=ops, expected=want)
        for (b, nc, names, par), s in zip(ops, want):
            if any(x not in pos for x in names):
                return viol("qasm-unknown-qubit-name", op=[b, nc, names], formals=formals)
            qs = [pos[x] for x in names]
            ok = b == s[0] and nc == s[1] and qs == s[2]
            if s[3] is None:
                ok = ok and par is None
            else:
                ok = ok and par is not None and abs(par - s[3]) <= 0.005 + 1e-9
            if not ok:
                return viol("qasm-op", got=[b, nc, qs, par], expected=s)
    nontrivial = (multi or aliased) and len(touched) >= 2
    if aliased:
        feats.append("aliased-names")
    return {"status": "ok", "nontrivial": nontrivial, "features": feats, "rows": 1 << n}
