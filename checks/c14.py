"""C14 - circuit composition operators compose.

Histories of append_circuit / + / += / repeat / copy / user mutation over a
pool of circuits, judged against a matrix model; plus remove_identities and
qft/iqft cases.
"""

import numpy as np
from hypothesis import strategies as st

from vlib import gen_circ, sims

ID = "C14"
CASE_TIMEOUT = 20  # seconds per case; a timed-out case is counted as skipped (symbolic blow-up on long feedback runs), never as a verdict
RULE = (
    "Hypothesis generates (a) histories of 2..8 operations (append_circuit with an injective qubit list, a+b, a+=b, "
    "a+=gate, repeat(n) n in 0..5, copy / copy(vanilla), user mutation of a result by append or in-place qubit-list edit, use of a copy's scratch-qubit bookkeeping for QCircuitEnhanced operands) "
    "over a pool of 2..3 circuits on 1..4 qubits, (b) QCircuitEnhanced circuits with adjacent same-object / equal-object / "
    "barrier-separated gate pairs for remove_identities, (c) qft+iqft on injective qubit lists of length 1..5 inside a wider "
    "register. Oracle: numpy unitaries (products, embeddings, powers) and unchanged gate lists of every object an operation does not own. "
    "Non-trivial = remapping is not the identity list, or n>=2 or n==0, or a cancellation happened, or a mutation-after-copy step, or a qft list that is not 0..k-1"
)
ASSUMPTIONS = [
    "vlib.sims dense simulator (validated against qiskit Operator, little-endian)",
    "repeat(0) is in the domain ('all n') and denotes the empty circuit on the same qubits",
    "independence is checked between circuits (operands that are bare gate tuples are not claimed)",
]
TOL = 1e-9

NAMES = ["X", "Y", "Z", "H", "S", "T", "P", "CX", "CZ", "CP", "CCX", "SWAP", "BARRIER", "MCZ"]


def budget(tier):
    return 1500 if tier == "quick" else 150000


@st.composite
def history_case(draw):
    nc = draw(st.integers(2, 3))
    circs = [draw(gen_circ.general_circuit(1, 4, 6, NAMES)) for _ in range(nc)]
    for c in circs:
        # some circuits are QCircuitEnhanced objects with scratch-qubit bookkeeping (free / marked ancillas)
        c["enh"] = draw(st.sampled_from([0, 0, 0, 1, 2]))
    ops = []
    nops = draw(st.integers(2, 8))
    small = st.integers(0, 7)
    for _ in range(nops):
        k = draw(st.sampled_from(["append", "append", "add", "iadd", "iaddgate", "repeat", "copy", "mut_append", "mut_inplace", "copy_scratch"]))
        if k == "append":
            ops.append([k, draw(small), draw(small), draw(st.lists(st.integers(0, 50), min_size=4, max_size=4))])
        elif k in ("add", "iadd"):
            ops.append([k, draw(small), draw(small)])
        elif k in ("iaddgate", "mut_append"):
            ops.append([k, draw(small), draw(gen_circ.gate(1, ["X", "H", "S", "T", "Z"])), draw(small), draw(small)])
        elif k == "repeat":
            ops.append([k, draw(small), draw(st.sampled_from([0, 1, 2, 2, 3, 3, 4, 5]))])
        elif k == "copy":
            ops.append([k, draw(small), draw(st.booleans())])
        elif k == "copy_scratch":
            ops.append([k, draw(small), draw(st.sampled_from(["get", "add", "mark", "get+x"]))])
        else:
            ops.append([k, draw(small), draw(small)])
    return {"kind": "history", "circuits": circs, "ops": ops}


@st.composite
def rmid_case(draw):
    n = draw(st.integers(1, 4))
    names = ["X", "Y", "Z", "H", "S", "T", "P", "CX", "CZ", "CP", "CCX", "SWAP", "BARRIER"]
    gl = draw(gen_circ.gate_list(n, names, 1, 8))
    dups = [draw(st.sampled_from(["no", "no", "same", "equal", "barrier-same", "same-twice", "sandwich", "sandwich-barrier", "around", "around"])) for _ in gl]
    # "around": the same gate object before and after ONE other gate that may or may not touch its qubits
    mids = [draw(gen_circ.gate(n, ["X", "H", "Z", "S", "CX", "CZ", "SWAP", "CCX"])) for _ in gl]
    return {"kind": "rmid", "n": n, "gates": gl, "dups": dups, "mids": mids}


@st.composite
def qft_case(draw):
    n = draw(st.integers(1, 6))
    k = draw(st.integers(1, min(n, 5)))
    wl = draw(gen_circ.qubits(n, k))
    pre = draw(gen_circ.gate_list(n, ["X", "H", "CX", "T"], 0, 3))
    return {"kind": "qft", "n": n, "wl": wl, "pre": pre}


def strategy(tier):
    return st.one_of(history_case(), history_case(), history_case(), rmid_case(), qft_case())


def U_of(qc):
    return sims.unitary(qc.num_qubits, qc.gates)


def close(a, b):
    return a.shape == b.shape and float(np.abs(a - b).max()) < TOL


def inj_list(keys, n_dst, k):
    order = sorted(range(n_dst), key=lambda q: (keys[q % len(keys)] + 7 * q) % 11 * 100 + q)
    return order[:k]


def judge(case):
    if case["kind"] == "rmid":
        return judge_rmid(case)
    if case["kind"] == "qft":
        return judge_qft(case)
    return judge_history(case)


def viol(kind, feats, **detail):
    return {"status": "violation", "kind": kind, "detail": detail, "features": feats}


def state_fp(qc):
    """generic snapshot of every attribute of a circuit object (gate lists as signatures, sets sorted)"""
    out = {}
    for k_, v in sorted(vars(qc).items()):
        if k_ in ("gates", "gates_computed"):
            out[k_] = [sims.gate_sig(g) for g in v]
        elif isinstance(v, (set, frozenset)):
            out[k_] = sorted(v)
        elif isinstance(v, dict):
            out[k_] = sorted(v.items())
        else:
            out[k_] = repr(v)
    return out


def judge_history(case):
    from qlasskit.qcircuit import QCircuit, QCircuitEnhanced, gates as G

    feats = ["history"]
    pool = []  # dict(real, U, snap, n)

    def add(real, U):
        pool.append({"real": real, "U": U, "snap": gen_circ.sigs(real), "n": real.num_qubits, "state": state_fp(real)})

    for c in case["circuits"]:
        if c.get("enh"):
            qc = gen_circ.build(c, cls=QCircuitEnhanced)
            for _ in range(c["enh"]):
                qc.add_ancilla(is_free=True)
            feats.append("enhanced")
        else:
            qc = gen_circ.build(c)
        add(qc, U_of(qc))

    nontrivial = False
    copied = set()  # pool indices that are copies/sources of copies

    def frame_check(owner_idx, opname):
        for i, e in enumerate(pool):
            if i in owner_idx:
                continue
            if gen_circ.sigs(e["real"]) != e["snap"] or e["real"].num_qubits != e["n"]:
                return viol("operand-modified:" + opname, feats, op=opname, victim=i, before=e["snap"], after=gen_circ.sigs(e["real"]))
            now = state_fp(e["real"])
            if now != e["state"]:
                diff = [k_ for k_ in now if now.get(k_) != e["state"].get(k_)]
                return viol("operand-state-modified:" + opname, feats, op=opname, victim=i, attributes=diff, before={k_: e["state"].get(k_) for k_ in diff}, after={k_: now.get(k_) for k_ in diff})
        return None

    for op in case["ops"]:
        k = op[0]
        feats.append("op:" + k)
        if k == "append":
            d = pool[op[1] % len(pool)]
            s = pool[op[2] % len(pool)]
            if s["n"] > d["n"]:
                d, s = s, d
            if d is s:
                # appending a circuit onto itself is legal python but aliasing is
                # outside the statement (two operands); use a copy as source
                continue
            qubits = inj_list(op[3], d["n"], s["n"])
            if qubits != list(range(s["n"])) and len(s["snap"]) > 0:
                nontrivial = True
                feats.append("remap-nonidentity")
            try:
                ret = d["real"].append_circuit(s["real"], list(qubits))
            except Exception as e:
                return viol("append_circuit-raises", feats, exc=repr(e), qubits=qubits)
            exp = sims.embed(s["U"], qubits, d["n"]) @ d["U"]
            di = pool.index(d)
            fc = frame_check({di}, k)
            if fc:
                return fc
            if ret is not d["real"] or not close(U_of(d["real"]), exp):
                return viol("append_circuit-action", feats, qubits=qubits, dst=d["snap"], src=s["snap"], got=gen_circ.sigs(d["real"]))
            d["U"], d["snap"], d["state"] = exp, gen_circ.sigs(d["real"]), state_fp(d["real"])
        elif k in ("add", "iadd"):
            a = pool[op[1] % len(pool)]
            b = pool[op[2] % len(pool)]
            if b["n"] > a["n"]:
                a, b = b, a
            if a is b and k == "iadd":
                continue
            exp = sims.embed(b["U"], list(range(b["n"])), a["n"]) @ a["U"]
            try:
                if k == "add":
                    r = a["real"] + b["real"]
                else:
                    r = a["real"]
                    r += b["real"]
            except Exception as e:
                return viol(k + "-raises", feats, exc=repr(e))
            if k == "add":
                fc = frame_check(set(), k)
                if fc:
                    return fc
                if r.num_qubits != a["n"] or not close(U_of(r), exp):
                    return viol("add-action", feats, a=a["snap"], b=b["snap"], got=gen_circ.sigs(r))
                add(r, exp)
                copied.add(len(pool) - 1)
            else:
                ai = pool.index(a)
                fc = frame_check({ai}, k)
                if fc:
                    return fc
                if r is not a["real"] or not close(U_of(r), exp):
                    return viol("iadd-action", feats, a=a["snap"], b=b["snap"], got=gen_circ.sigs(r))
                a["U"], a["snap"], a["state"] = exp, gen_circ.sigs(r), state_fp(r)
        elif k in ("iaddgate", "mut_append"):
            a = pool[op[1] % len(pool)]
            nm = op[2][0]
            q = op[3] % a["n"]
            gate_obj = getattr(G, nm)()
            if k == "iaddgate":
                r = a["real"]
                r += (gate_obj, [q], None)
            else:
                a["real"].append(gate_obj, [q])
                if pool.index(a) in copied:
                    nontrivial = True
                    feats.append("mutation-after-copy")
            g1 = QCircuit(a["n"])
            g1.append(gate_obj, [q])
            exp = U_of(g1) @ a["U"]
            ai = pool.index(a)
            fc = frame_check({ai}, k)
            if fc:
                return fc
            if not close(U_of(a["real"]), exp):
                return viol(k + "-action", feats, a=a["snap"], got=gen_circ.sigs(a["real"]))
            a["U"], a["snap"], a["state"] = exp, gen_circ.sigs(a["real"]), state_fp(a["real"])
        elif k == "repeat":
            a = pool[op[1] % len(pool)]
            n = op[2]
            try:
                r = a["real"].repeat(n)
            except Exception as e:
                return viol("repeat-raises", feats, exc=repr(e), n=n)
            exp = np.linalg.matrix_power(a["U"], n)
            fc = frame_check(set(), k)
            if fc:
                return fc
            if r is a["real"] or r.num_qubits != a["n"] or not close(U_of(r), exp):
                return viol("repeat-action" if n > 0 else "repeat-zero", feats, n=n, a=a["snap"], got=gen_circ.sigs(r))
            if (n >= 2 or n == 0) and len(a["snap"]) > 0:
                nontrivial = True
            add(r, exp)
            copied.add(len(pool) - 1)
            copied.add(pool.index(a))
        elif k == "copy":
            a = pool[op[1] % len(pool)]
            vanilla = bool(op[2])
            try:
                r = a["real"].copy(vanilla) if vanilla else a["real"].copy()
            except Exception as e:
                return viol("copy-raises", feats, exc=repr(e))
            fc = frame_check(set(), k)
            if fc:
                return fc
            if r is a["real"] or r.num_qubits != a["n"] or not close(U_of(r), a["U"]):
                return viol("copy-action", feats, a=a["snap"], got=gen_circ.sigs(r))
            if not vanilla and (r.name != a["real"].name or r.qubit_map != a["real"].qubit_map):
                return viol("copy-metadata", feats, name=[r.name, a["real"].name])
            if r.qubit_map is a["real"].qubit_map or r.gates is a["real"].gates:
                return viol("copy-shares-state", feats)
            add(r, a["U"].copy())
            copied.add(len(pool) - 1)
            copied.add(pool.index(a))
        elif k == "copy_scratch":
            # copy an (enhanced) circuit and use the COPY's scratch-qubit bookkeeping: the original must not notice
            enh = [e for e in pool if isinstance(e["real"], QCircuitEnhanced)]
            if not enh:
                continue
            a = enh[op[1] % len(enh)]
            try:
                c = a["real"].copy()
                if op[2] == "add":
                    c.add_ancilla()
                elif op[2] == "mark":
                    q = c.get_free_ancilla()
                    c.mark_ancilla(q)
                else:
                    q = c.get_free_ancilla()
                    if op[2] == "get+x":
                        c.x(q)
            except Exception as e:
                return viol("copy-scratch-raises", feats, exc=repr(e))
            nontrivial = True
            feats.append("mutation-after-copy")
            fc = frame_check(set(), k)
            if fc:
                return fc
        elif k == "mut_inplace":
            a = pool[op[1] % len(pool)]
            cand = [i for i, g in enumerate(a["real"].gates) if len(g[1]) >= 1]
            if not cand:
                continue
            gi = cand[op[2] % len(cand)]
            lst = a["real"].gates[gi][1]
            free = [q for q in range(a["n"]) if q not in lst]
            if free:
                lst[0] = free[0]
            elif len(lst) >= 2:
                lst.reverse()
            else:
                continue
            if pool.index(a) in copied:
                nontrivial = True
                feats.append("mutation-after-copy")
            ai = pool.index(a)
            fc = frame_check({ai}, k)
            if fc:
                return fc
            a["U"], a["snap"], a["state"] = U_of(a["real"]), gen_circ.sigs(a["real"]), state_fp(a["real"])
    return {"status": "ok", "nontrivial": nontrivial, "features": feats, "rows": sum(1 << e["n"] for e in pool)}


def judge_rmid(case):
    from qlasskit.qcircuit import QCircuitEnhanced, gates as G

    feats = ["rmid"]
    n = case["n"]
    qc = QCircuitEnhanced(n)
    mids = case.get("mids") or [None] * len(case["gates"])
    for (nm, qs, p), dup, mid in zip(case["gates"], case["dups"], mids):
        gen_circ.append_gate(qc, nm, qs, p, G)
        if nm == "BARRIER" or dup == "no":
            continue
        g, w, pp = qc.gates[-1]
        feats.append("dup:" + dup)
        if dup == "same":
            qc.append(g, list(w), pp)
        elif dup == "same-twice":
            qc.append(g, list(w), pp)
            qc.append(g, list(w), pp)
        elif dup == "equal":
            gen_circ.append_gate(qc, nm, qs, p, G)
        elif dup == "barrier-same":
            qc.barrier()
            qc.append(g, list(w), pp)
        elif dup == "around":
            if mid is not None:
                gen_circ.append_gate(qc, mid[0], mid[1], mid[2], G)
                if set(mid[1]) & set(w):
                    feats.append("around-overlapping")
            qc.append(g, list(w), pp)
        elif dup in ("sandwich", "sandwich-barrier"):
            # the same gate object right before and right after a cancelling pair of another gate
            hx = G.X()
            tq = [q for q in range(n) if q not in w] or [w[0]]
            qc.append(hx, [tq[0]])
            if dup == "sandwich-barrier":
                qc.barrier()
            qc.append(hx, [tq[0]])
            qc.append(g, list(w), pp)
    before_sigs = gen_circ.sigs(qc)
    U0 = U_of(qc)
    try:
        qc.remove_identities()
    except Exception as e:
        return viol("remove_identities-raises", feats, exc=repr(e), circuit=before_sigs)
    after = gen_circ.sigs(qc)
    if qc.num_qubits != n or not close(U_of(qc), U0):
        return viol("remove_identities-action", feats, before=before_sigs, after=after)
    removed = len([s for s in before_sigs if s[0] != "BARRIER"]) - len([s for s in after if s[0] != "BARRIER"])
    if removed:
        feats.append("cancelled")
    return {"status": "ok", "nontrivial": removed > 0, "features": feats, "rows": 1 << n}


def judge_qft(case):
    from qlasskit.qcircuit import QCircuit

    feats = ["qft", "qftlen:%d" % len(case["wl"])]
    n, wl = case["n"], case["wl"]
    qc = gen_circ.build({"n": n, "gates": case["pre"]})
    Upre = U_of(qc)
    try:
        qc.qft(list(wl))
        mid = U_of(qc)
        qc.iqft(list(wl))
    except Exception as e:
        return viol("qft-raises", feats, exc=repr(e))
    if not close(U_of(qc), Upre):
        return viol("iqft-does-not-undo-qft", feats, wl=wl, n=n)
    # qft itself: the textbook DFT matrix on the listed qubits (wl[0] most significant, as the
    # library's own test uses it) is not claimed by the property; only invertibility is.
    k = len(wl)
    return {"status": "ok", "nontrivial": wl != list(range(k)) or k >= 3, "features": feats, "rows": 1 << n}
