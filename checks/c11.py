"""C11 - decompiled expressions describe exactly what the gates do."""

from hypothesis import strategies as st

from vlib import boolsem, gen_circ, sims

ID = "C11"
CASE_TIMEOUT = 8  # seconds per case; a timed-out case is counted as skipped (symbolic blow-up on long feedback runs), never as a verdict
RULE = (
    "Hypothesis generates circuits of 1..5 qubits (one case in seven: 10..13 qubits): runs of X/CX/CCX/MCX(3..5 controls) interleaved with "
    "H/Z/S/T/Y/P/CZ/CP/SWAP and barriers (leading, trailing, doubled, inside runs); inner quantifier: all 2^n basis "
    "states at section entry. Non-trivial = (>=2 sections, or a section adjacent to a barrier or non-classical gate) "
    "and some section with >=3 gates; distinct by canonical JSON of the gate list"
)
ASSUMPTIONS = [
    "the I gate and MCtrl(X) objects are outside the property's gate list (X, CX, CCX, multi-controlled X built by mcx()) and are not generated",
    "a barrier at the edge of a reported index range is tolerated (barriers ignored); a dropped or extra non-barrier gate is not",
]


def budget(tier):
    return 3000 if tier == "quick" else 300000


def strategy(tier):
    small = gen_circ.mixed_circuit(1, 5, max_segments=5)
    # registers wider than ten qubits (two-digit default qubit names), short runs: still all 2^n entry states
    wide = gen_circ.mixed_circuit(10, 13, max_segments=3, run_max=5)
    return st.integers(0, 6).flatmap(lambda k: wide if k == 0 else small)


def runs_of(case_gates):
    """Independent recomputation of maximal classical runs: list of
    (first_index, last_index_exclusive_of_gates, [gate indices])."""
    runs = []
    cur = []
    for i, g in enumerate(case_gates):
        nm = g[0]
        if nm in gen_circ.CLASSICAL:
            cur.append(i)
        elif nm == "BARRIER":
            continue
        else:
            if cur:
                runs.append(cur)
            cur = []
    if cur:
        runs.append(cur)
    return runs


def judge(case):
    from qlasskit.decompiler import Decompiler

    n = case["n"]
    cg = case["gates"]
    qc = gen_circ.build(case)
    before = gen_circ.sigs(qc)
    feats = ["n:%d" % n]
    try:
        res = Decompiler().decompile(qc)
    except Exception as e:
        return {"status": "violation", "kind": "decompile-raises", "detail": {"exc": repr(e)}, "features": feats}
    after = gen_circ.sigs(qc)
    if before != after:
        return {"status": "violation", "kind": "input-circuit-mutated", "detail": {"before": before, "after": after}, "features": feats}

    runs = runs_of(cg)
    secs = list(res)
    feats.append("sections:%d" % min(len(runs), 4))
    if len(secs) != len(runs):
        return {
            "status": "violation",
            "kind": "section-count",
            "detail": {"expected_runs": [[cg[i] for i in r] for r in runs], "got_sections": [repr(s.index) for s in secs]},
            "features": feats,
        }
    mask = boolsem.full_mask(n)
    entry = boolsem.input_columns(n)
    adjacent = False
    big = False
    rows = 0
    for run, sec in zip(runs, secs):
        exp_sigs = [gen_circ.sig_of_case_gate(cg[i]) for i in run]
        got_sigs = [sims.gate_sig(a) for a in sec.gates]
        if exp_sigs != got_sigs:
            return {"status": "violation", "kind": "section-gates", "detail": {"expected": exp_sigs, "got": got_sigs}, "features": feats}
        i0, i1 = sec.index
        if not (isinstance(i0, int) and isinstance(i1, int) and 0 <= i0 <= i1 <= len(cg)):
            return {"status": "violation", "kind": "section-range", "detail": {"index": [i0, i1], "len": len(cg)}, "features": feats}
        in_range = [gen_circ.sig_of_case_gate(g) for g in cg[i0:i1] if g[0] != "BARRIER"]
        if in_range != exp_sigs:
            return {
                "status": "violation",
                "kind": "section-range",
                "detail": {"index": [i0, i1], "range_gates": in_range, "run_gates": exp_sigs, "circuit": cg},
                "features": feats,
            }
        # semantics on all basis states at section entry
        cols = list(entry)
        sims.rev_run(sec.gates, cols, mask)
        env = {f"q{k}": entry[k] for k in range(n)}
        named = {}
        for s, e in sec.expressions:
            nm = s.name
            if not (nm.startswith("q") and nm[1:].isdigit() and int(nm[1:]) < n) or nm in named:
                return {"status": "violation", "kind": "expression-symbol", "detail": {"symbol": nm}, "features": feats}
            try:
                named[nm] = boolsem.ev(e, env, mask)
            except boolsem.FreeSymbol as fs:
                return {"status": "violation", "kind": "expression-free-symbol", "detail": {"symbol": str(fs), "expr": str(e)}, "features": feats}
        rows += 1 << n
        for k in range(n):
            got = named.get(f"q{k}", entry[k])
            if got != cols[k]:
                r = boolsem.first_diff_row(got, cols[k])
                return {
                    "status": "violation",
                    "kind": "expression-semantics" if f"q{k}" in named else "missing-expression",
                    "detail": {"qubit": k, "entry_state_index": r, "section_gates": exp_sigs, "expr": str(dict((s.name, str(e)) for s, e in sec.expressions).get(f"q{k}"))},
                    "features": feats,
                }
        if len(run) >= 3:
            big = True
        lo, hi = run[0], run[-1]
        if lo > 0 or hi < len(cg) - 1 or any(cg[i][0] == "BARRIER" for i in range(lo, hi)):
            adjacent = True
    nontrivial = big and (len(runs) >= 2 or adjacent)
    if any(g[0] == "BARRIER" for g in cg):
        feats.append("has-barrier")
    if any(g[0] == "MCX" for g in cg):
        feats.append("has-mcx")
    return {"status": "ok", "nontrivial": nontrivial, "features": feats, "rows": rows}
