"""C08 - binding parameters is specialisation."""

from hypothesis import strategies as st

from vlib import boolsem, gen_prog, progeval, refsem

ID = "C08"
SHARDS = 32
RULE = (
    "Hypothesis builds programs in which 1..3 arguments are Parameter[T] (T in bool, Qint[2..4], Qchar, Tuple/Qlist of bools or ints), "
    "used in expressions, if-expressions, tuple iteration and element access, plus a history of 2..4 binds of the SAME unbound object "
    "(keyword order permuted, values from T's whole domain, the first value bound again at the end); after every bind the bound "
    "function's expression list is evaluated on ALL assignments of the remaining arguments against the reference run with the parameters "
    "set to the bound values; the unbound object's AST and parameter table must not change, equal values must give equal truth tables, "
    "wrong names / counts must raise. One case in seven is the matrix family: a Parameter[List[List[Qint[w]]]] of 1..3 x 1..4 elements read as m[i][j] "
    "with run-time i, j (in-range rows judged against the python list lookup), bound to several shapes in turn. Non-trivial = >=2 binds with different values whose specialisations differ as functions; "
    "distinct by canonical JSON of the case"
)
ASSUMPTIONS = [
    "a bound value behaves as a constant: only rows on which the declared-width reading and the constant-width reading of the parameter agree are judged",
    "scalar parameters are not used as loop bounds or variable subscripts (rejected or constant-folded by the library; not part of the generated domain)",
    "matrix family: rows with i or j outside the bound matrix are outside the domain (python raises IndexError)",
    "reference semantics of vlib/refsem.py",
]


def budget(tier):
    return 500 if tier == "quick" else 8000


def cfg():
    return gen_prog.Cfg(
        int_widths=[2, 2, 3, 4], max_in_bits=6, max_args=2, depth=2, max_stmts=2, use_char=False, use_fixed=False,
        use_vidx=False, ret_kinds=("bool", "int", "int", "tuple"),
    )


PTYPES = [
    ["bool"], ["int", 2], ["int", 2], ["int", 3], ["int", 4], ["char"],
    ["tuple", [["bool"], ["int", 2]]], ["list", ["int", 2], 2], ["list", ["bool"], 3], ["tuple", [["int", 2], ["int", 4]]],
    ["tuple", [["int", 2], ["tuple", [["bool"], ["int", 4]]]]], ["tuple", [["tuple", [["bool"], ["int", 2]]], ["bool"]]],
]


def value_strategy(t):
    t = gen_prog.expand(t)
    if t[0] == "bool":
        return st.booleans()
    if t[0] == "int":
        return st.integers(0, (1 << t[1]) - 1)
    if t[0] == "char":
        return st.sampled_from(["a", "b", "z", "A", "0"])
    return st.tuples(*[value_strategy(x) for x in t[1]]).map(list)


@st.composite
def case(draw):
    c = cfg()
    nparams = draw(st.sampled_from([1, 1, 2, 2, 3]))
    pnames = ["p", "q", "r"][:nparams]
    ptypes = [draw(st.sampled_from(PTYPES)) for _ in pnames]
    if nparams > 1 and draw(st.integers(0, 9)) < 4:
        ptypes = [ptypes[0]] * nparams  # same-typed parameters: their values can be exchanged between binds
    nargs = draw(st.integers(1, 2))
    args = []
    rem = 6
    for i in range(nargs):
        t = gen_prog.any_type(draw, c, max(1, rem - (nargs - 1 - i)))
        rem -= gen_prog.nbits(t)
        args.append([gen_prog.NAMES[i], t])
    allargs = args + [[n, t] for n, t in zip(pnames, ptypes)]
    order = draw(st.permutations(list(range(len(allargs)))))
    allargs = [allargs[i] for i in order]
    callee = None
    fns = None
    if draw(st.integers(0, 9)) < 3:
        # the parameterised function calls another compiled function passed with defs=[...]
        callee = draw(gen_prog.program(gen_prog.Cfg(int_widths=[2], max_in_bits=3, max_args=2, depth=1, max_stmts=0, use_char=False, use_fixed=False,
                                                    use_tuple=False, use_vidx=False, ret_kinds=("bool", "int")), name="g"))
        fns = {"g": ([a[1] for a in callee["args"]], callee["ret"])}
    prog = draw(gen_prog.program(c, args=allargs, params=tuple(pnames), fns=fns))
    prog["params"] = pnames
    prog["callee"] = callee
    # make the result depend on a parameter most of the time
    if draw(st.integers(0, 9)) < 7 and prog["ret"][0] in ("bool", "int"):
        pn = draw(st.sampled_from(pnames))
        pt = gen_prog.expand(dict((a[0], a[1]) for a in allargs)[pn])
        pe = ["v", pn]
        if pt[0] == "tuple":
            k = draw(st.integers(0, len(pt[1]) - 1))
            pe, pt = ["idx", pe, k], pt[1][k]
        r = prog["body"][-1][1]
        if prog["ret"][0] == "bool":
            if pt[0] == "bool":
                r = ["bin", "^", r, pe]
            elif pt[0] == "int":
                r = ["bin", "^", r, ["cmp", draw(st.sampled_from([">", "==", "<="])), pe, ["k", draw(st.integers(0, 3))]]]
            else:
                r = ["bin", "^", r, ["cmp", "==", pe, ["k", "a"]]]
        else:
            if pt[0] == "int":
                r = ["bin", draw(st.sampled_from(["+", "-", "^", "|"])), r, pe]
            elif pt[0] == "bool":
                r = ["ife", pe, r, ["bin", "+", r, ["k", 1]]]
        prog["body"][-1][1] = r
    nb = draw(st.integers(2, 4))
    binds = []
    for _ in range(nb - 1):
        binds.append({n: draw(value_strategy(t)) for n, t in zip(pnames, ptypes)})
    binds.append(dict(binds[0]))
    korder = [draw(st.permutations(pnames)) for _ in binds]
    # a bind that passes the values of an earlier bind in the same call order but to exchanged names
    pairs = [(a, b) for i, a in enumerate(pnames) for b in pnames[i + 1:] if ptypes[pnames.index(a)] == ptypes[pnames.index(b)]]
    if pairs and draw(st.integers(0, 9)) < 6:
        a, b = draw(st.sampled_from(pairs))
        k = draw(st.integers(0, len(binds) - 1))
        if binds[k][a] != binds[k][b]:
            nb_ = dict(binds[k])
            nb_[a], nb_[b] = binds[k][b], binds[k][a]
            binds.insert(k + 1, nb_)
            korder.insert(k + 1, [b if x == a else a if x == b else x for x in korder[k]])
    return {"prog": prog, "binds": binds, "kw_order": korder, "opt": draw(st.sampled_from(["default", "fast"]))}


@st.composite
def matrix_case(draw):
    """a list-of-lists parameter read with two run-time indexes, bound to matrices of several shapes"""
    w = draw(st.sampled_from([2, 2, 3]))
    variant = draw(st.sampled_from(["elt", "elt", "cmp", "sum", "ife"]))
    binds = []
    for _ in range(draw(st.integers(2, 4))):
        rows = draw(st.integers(1, 3))
        cols = draw(st.integers(1, 4))
        binds.append([[draw(st.integers(0, (1 << w) - 1)) for _ in range(cols)] for _ in range(rows)])
    binds.append([list(r) for r in binds[0]])
    return {"matrix": {"w": w, "variant": variant, "order": draw(st.sampled_from(["mij", "imj", "ijm"]))}, "binds": binds,
            "opt": draw(st.sampled_from(["default", "fast"]))}


def strategy(tier):
    return st.one_of(case(), case(), case(), case(), case(), case(), matrix_case())


def matrix_src(m):
    w = m["w"]
    formals = {"m": f"m: Parameter[List[List[Qint[{w}]]]]", "i": "i: Qint[2]", "j": "j: Qint[2]"}
    order = [formals[c] for c in m["order"]]
    free = [c for c in m["order"] if c != "m"]
    v = m["variant"]
    if v in ("cmp", "sum", "ife"):
        order.append(f"a: Qint[{w}]")
        free.append("a")
    ret = "bool" if v == "cmp" else f"Qint[{w}]"
    body = {"elt": "m[i][j]", "cmp": "m[i][j] == a", "sum": "m[i][j] + a", "ife": "m[i][j] if a > 1 else a"}[v]
    return f"def f({', '.join(order)}) -> {ret}:\n    return {body}\n", free


def judge_matrix(case):  # noqa: C901
    import ast

    from qlasskit import qlassf

    m = case["matrix"]
    w = m["w"]
    feats = ["opt:" + case["opt"], "matrix-parameter", "variant:" + m["variant"]]
    src, free = matrix_src(m)
    try:
        with progeval.time_limit(8):
            try:
                u = qlassf(src, to_compile=False, bool_optimizer=progeval.optimizer(case["opt"]))
            except progeval.Timeout:
                raise
            except Exception as e:
                return {"status": "rejected", "nontrivial": False, "features": feats + ["rejected-unbound:" + progeval.rejection_key(e)]}
    except progeval.Timeout:
        return {"status": "skip", "nontrivial": False, "features": feats + ["timeout"]}
    ast0 = ast.dump(u.fun_ast)
    widths = {"i": 2, "j": 2, "a": w}
    nbits = sum(widths[c] for c in free)
    judged = 0
    shapes = set()
    seen = {}
    for bi, mat in enumerate(case["binds"]):
        D = {"src": src, "binding": {"m": mat}, "bind_index": bi, "opt": case["opt"]}
        try:
            with progeval.time_limit(20):
                try:
                    qf = u.bind(m=[list(r) for r in mat])
                except progeval.Timeout:
                    raise
                except Exception as e:
                    if seen.get(json_key(mat)) is not None:
                        return {"status": "violation", "kind": "rebind-raises", "detail": dict(D, exc=repr(e)[:300]), "features": feats}
                    feats.append("bind-rejected:" + progeval.rejection_key(e))
                    continue
        except progeval.Timeout:
            return {"status": "skip", "nontrivial": False, "features": feats + ["timeout"]}
        if ast.dump(u.fun_ast) != ast0:
            return {"status": "violation", "kind": "unbound-object-changed", "detail": D, "features": feats}
        if [a.name for a in qf.args] != free:
            return {"status": "violation", "kind": "bound-arguments", "detail": dict(D, got=[a.name for a in qf.args], expected=free), "features": feats}
        try:
            cols, mask = progeval.lib_columns(qf, nbits)
        except boolsem.FreeSymbol as fs:
            return {"status": "violation", "kind": "free-symbol", "detail": dict(D, symbol=str(fs)), "features": feats}
        except boolsem.UnsupportedNode:
            return {"status": "skip", "nontrivial": False, "features": feats + ["unsupported-node"]}
        rbits = list(qf.returns.bitvec)
        if any(x not in cols for x in rbits):
            return {"status": "violation", "kind": "return-bit-undefined", "detail": D, "features": feats}
        colt = tuple(cols[x] for x in rbits)
        k = json_key(mat)
        if seen.get(k) is not None and seen[k] != colt:
            return {"status": "violation", "kind": "equal-values-different-functions", "detail": D, "features": feats}
        seen[k] = colt
        nr, nc = len(mat), len(mat[0])
        shapes.add((nr, nc))
        for r in range(1 << nbits):
            vals = {}
            pos = 0
            for c in free:
                vals[c] = (r >> pos) & ((1 << widths[c]) - 1)
                pos += widths[c]
            if vals["i"] >= nr or vals["j"] >= nc:
                continue  # python raises IndexError: outside the function's domain
            e = mat[vals["i"]][vals["j"]]
            v = m["variant"]
            if v == "cmp":
                exp = [int(e == vals["a"])]
            else:
                if v == "sum":
                    e = (e + vals["a"]) % (1 << w)
                elif v == "ife":
                    e = e if vals["a"] > 1 else vals["a"]
                exp = [(e >> b) & 1 for b in range(w)]
            got = [(cols[x] >> r) & 1 for x in rbits]
            judged += 1
            if got != exp:
                return {"status": "violation", "kind": "specialisation-mismatch",
                        "detail": dict(D, args=vals, expected_bits=exp, library_bits=got, expressions=[(str(s), str(x)) for s, x in qf.expressions][:12]),
                        "features": feats}
    feats.append("nonsquare" if any(a != b for a, b in shapes) else "square-only")
    return {"status": "ok", "nontrivial": len(set(seen.values())) >= 2 and judged > 0, "features": feats, "rows": judged}


def json_key(x):
    import json

    return json.dumps(x)


def const_type_of(t, v):
    t = gen_prog.expand(t)
    if t[0] == "tuple":
        return ["tuple", [const_type_of(x, e) for x, e in zip(t[1], v)]]
    return gen_prog.const_type(v)


def ref_value(t, v, declared):
    """reference object for a bound value: a fixed-width constant"""
    t = gen_prog.expand(t)
    if t[0] == "bool":
        return bool(v)
    if t[0] == "int":
        return refsem.RInt(v, t[1] if declared else refsem.const_width(v))
    if t[0] == "char":
        return v
    return tuple(ref_value(x, e, declared) for x, e in zip(t[1], v))


def pyvalue(t, v):
    t = gen_prog.expand(t)
    if t[0] == "tuple":
        return tuple(pyvalue(x, e) for x, e in zip(t[1], v))
    return v


def judge(case):  # noqa: C901
    import ast

    from qlasskit import qlassf

    if "matrix" in case:
        return judge_matrix(case)
    prog = case["prog"]
    pnames = prog["params"]
    ptypes = {a[0]: a[1] for a in prog["args"] if a[0] in pnames}
    free_args = [a for a in prog["args"] if a[0] not in pnames]
    feats = ["opt:" + case["opt"], "params:%d" % len(pnames)] + ["ptype:" + ptypes[n][0] for n in pnames]
    callee = prog.get("callee")
    fenv = {"fn:g": callee["ret"]} if callee else None
    defs = []
    ref_ns = {}
    try:
        src = gen_prog.render_lib(prog, fenv)
        if callee:
            csrc = gen_prog.render_lib(callee)
            gq, rej = progeval.compile_lib(csrc, case["opt"])
            if gq is None:
                return {"status": "rejected", "nontrivial": False, "features": feats + ["callee-rejected:" + rej]}
            defs = [gq]
            ref_ns["g"] = progeval.RefRun(callee).fn
            feats.append("with-defs")
            src = csrc + "# ---- caller\n" + src if False else src
    except gen_prog.GenTypeError:
        return {"status": "skip", "nontrivial": False, "features": feats + ["gen-type-error"]}
    except progeval.Timeout:
        return {"status": "skip", "nontrivial": False, "features": feats + ["timeout"]}
    try:
        with progeval.time_limit(8):
            try:
                u = qlassf(src, defs=defs, to_compile=False, bool_optimizer=progeval.optimizer(case["opt"]))
            except progeval.Timeout:
                raise
            except Exception as e:
                return {"status": "rejected", "nontrivial": False, "features": feats + ["rejected-unbound:" + progeval.rejection_key(e)]}
    except progeval.Timeout:
        return {"status": "skip", "nontrivial": False, "features": feats + ["timeout"]}
    if type(u).__name__ != "UnboundQlassf":
        return {"status": "violation", "kind": "not-unbound", "detail": {"src": src, "type": type(u).__name__}, "features": feats}
    ast0 = ast.dump(u.fun_ast)
    par0 = {k: ast.dump(v) for k, v in u.parameters.items()}
    if sorted(par0) != sorted(pnames):
        return {"status": "violation", "kind": "parameter-table", "detail": {"src": src, "parameters": sorted(par0)}, "features": feats}

    # wrong names / counts must raise
    b0 = case["binds"][0]
    for bad, why in ((dict(list(b0.items())[:-1]), "missing"), (dict(b0, zz_unknown=1), "extra")):
        if why == "missing" and len(b0) == 1:
            bad = {}
        try:
            u.bind(**{k: pyvalue(ptypes[k], v) if k in ptypes else v for k, v in bad.items()})
            return {"status": "violation", "kind": "bind-accepts-wrong-parameters:" + why, "detail": {"src": src, "kwargs": list(bad)}, "features": feats}
        except Exception:
            pass
    if ast.dump(u.fun_ast) != ast0:
        return {"status": "violation", "kind": "unbound-ast-changed", "detail": {"src": src, "after": "failed bind"}, "features": feats}

    nbits = sum(gen_prog.nbits(t) for _, t in free_args)
    if nbits > 10:
        return {"status": "skip", "nontrivial": False, "features": feats + ["too-many-bits"]}
    free_prog = dict(prog, args=free_args)
    exp_ret = progeval.ret_bit_names(prog)
    seen = {}  # canonical binding -> column tuple
    judged_total = 0
    distinct_funcs = set()
    for bi, (b, ko) in enumerate(zip(case["binds"], case["kw_order"])):
        kwargs = {k: pyvalue(ptypes[k], b[k]) for k in ko}
        try:
            with progeval.time_limit(8):
                try:
                    qf = u.bind(**kwargs)
                except progeval.Timeout:
                    raise
                except Exception as e:
                    if seen.get(("st", gen_prog_key(b))) == "ok":
                        return {"status": "violation", "kind": "rebind-raises", "detail": {"src": src, "binding": b, "exc": repr(e)[:300]}, "features": feats}
                    # binding p=v means what the function means with `p = v` as its first statement: if the library
                    # translates that text, it cannot refuse the bind
                    isrc = inlined_source(prog, pnames, ptypes, b, fenv)
                    if isrc is not None:
                        try:
                            qlassf(isrc, defs=defs, to_compile=False, bool_optimizer=progeval.optimizer(case["opt"]))
                            accepted = True
                        except progeval.Timeout:
                            raise
                        except Exception:
                            accepted = False
                        if accepted:
                            return {"status": "violation", "kind": "bind-rejects-accepted-constant",
                                    "detail": {"src": src, "binding": b, "exc": repr(e)[:300], "accepted_as_text": isrc}, "features": feats}
                    seen[("st", gen_prog_key(b))] = "rejected"
                    feats.append("bind-rejected:" + progeval.rejection_key(e))
                    continue
        except progeval.Timeout:
            return {"status": "skip", "nontrivial": False, "features": feats + ["timeout"]}
        D = {"src": src, "binding": b, "kw_order": list(ko), "bind_index": bi, "opt": case["opt"]}
        if ast.dump(u.fun_ast) != ast0 or {k: ast.dump(v) for k, v in u.parameters.items()} != par0:
            return {"status": "violation", "kind": "unbound-object-changed", "detail": D, "features": feats}
        got_args = [a.name for a in qf.args]
        if got_args != [a[0] for a in free_args]:
            return {"status": "violation", "kind": "bound-arguments", "detail": dict(D, got=got_args, expected=[a[0] for a in free_args]), "features": feats}
        if [x for a in qf.args for x in a.bitvec] != progeval.arg_bit_names(free_prog):
            return {"status": "violation", "kind": "bound-argument-bits", "detail": D, "features": feats}
        try:
            cols, mask = progeval.lib_columns(qf, nbits)
        except boolsem.FreeSymbol as fs:
            return {"status": "violation", "kind": "free-symbol", "detail": dict(D, symbol=str(fs), expressions=[(str(s), str(e)) for s, e in qf.expressions][:16]), "features": feats}
        except boolsem.UnsupportedNode:
            return {"status": "skip", "nontrivial": False, "features": feats + ["unsupported-node"]}
        missing = [x for x in exp_ret if x not in cols]
        if missing:
            return {"status": "violation", "kind": "return-bit-undefined", "detail": dict(D, missing=missing), "features": feats}
        key = gen_prog_key(b)
        colt = tuple(cols[x] for x in exp_ret)
        if seen.get(("st", key)) == "rejected":
            return {"status": "violation", "kind": "rebind-accepted-after-rejection", "detail": D, "features": feats}
        if key in seen and seen[key] != colt:
            return {"status": "violation", "kind": "equal-values-different-functions", "detail": D, "features": feats}
        seen[key] = colt
        seen[("st", key)] = "ok"
        distinct_funcs.add(colt)

        # the two readings of the bound constant's width
        refs = []
        for declared in (False, True):
            env_extra = {}
            for n in pnames:
                t = ptypes[n]
                te = gen_prog.expand(t)
                if te[0] == "tuple":
                    env_extra[n] = te if declared else const_type_of(t, b[n])
                    env_extra["tconst:" + n] = list(b[n])
                elif te[0] == "int":
                    env_extra[n] = te if declared else ["int", refsem.const_width(b[n])]
            if fenv:
                env_extra.update(fenv)
            try:
                refs.append((declared, progeval.RefRun(prog, extra_ns=dict(ref_ns), extra_env=env_extra)))
            except gen_prog.GenTypeError:
                refs.append((declared, None))
        if any(r is None for _, r in refs):
            feats.append("ref-untypable")
            continue
        for r in range(1 << nbits):
            vals, plain = progeval.row_args(free_prog, r)
            exps = []
            for declared, ref in refs:
                it = iter(vals)
                full = []
                for a in prog["args"]:
                    if a[0] in pnames:
                        full.append(ref_value(a[1], b[a[0]], declared))
                    else:
                        full.append(next(it))
                exps.append(ref.call(full))
            if any(s != "ok" for s, _ in exps):
                continue
            e0, e1 = exps[0][1], exps[1][1]
            got = [(cols[x] >> r) & 1 for x in exp_ret]
            rowjudged = False
            for x, a_, b_, g in zip(exp_ret, e0, e1, got):
                if a_ is None or b_ is None or a_ != b_:
                    continue
                rowjudged = True
                if a_ != g:
                    return {
                        "status": "violation",
                        "kind": "specialisation-mismatch",
                        "detail": dict(D, args=dict(zip([a[0] for a in free_args], plain)), bit=x, expected_bits=e0, library_bits=got,
                                       expressions=[(str(s), str(e)) for s, e in qf.expressions][:12]),
                        "features": feats,
                    }
            judged_total += 1 if rowjudged else 0
    nontrivial = len(distinct_funcs) >= 2 and judged_total > 0
    return {"status": "ok", "nontrivial": nontrivial, "features": feats, "rows": judged_total}


def inlined_source(prog, pnames, ptypes, b, fenv):
    """the source of the function with the parameters removed from the signature and assigned as constants first"""
    try:
        p2 = dict(prog, args=[a for a in prog["args"] if a[0] not in pnames], params=[])
        env = {n: ptypes[n] for n in pnames}
        for n in pnames:
            if gen_prog.expand(ptypes[n])[0] == "tuple":
                env["tconst:" + n] = list(b[n])
        if fenv:
            env.update(fenv)
        src = gen_prog.render_lib(p2, env)
    except gen_prog.GenTypeError:
        return None
    lines = src.split("\n")
    consts = ["    %s = %r" % (n, pyvalue(ptypes[n], b[n])) for n in pnames]
    return "\n".join([lines[0]] + consts + lines[1:])


def gen_prog_key(b):
    import json

    return json.dumps(b, sort_keys=True)


def health(status, features, n):
    rej = status.get("rejected", 0)
    out = [f"rejected={rej}"]
    if n and rej / n > 0.5:
        out.append(f"FAIL rejected fraction {rej}/{n}")
    return out
