"""C10 - compilation is pure: no dependence on, or damage to, earlier work."""

import json

from hypothesis import strategies as st

from vlib import gen_prog, progeval, purity

ID = "C10"
SHARDS = 16
RULE = (
    "Hypothesis builds a pool of 3..5 programs (single-argument predicates, general functions, a parameterised function, a caller of a "
    "pool function; names drawn from a pool containing same-named functions and names living in qlasskit.qlassfun's module namespace: "
    "copy, reduce, partial, ast, inspect, Q, flatten, to_quantum, oracle, ...) and a history of 5..11 public API operations over LIVE "
    "objects (compile with varied options, bind, defs=[live], oraclize, Grover/DeutschJozsa/BernsteinVazirani/Simon construction, export "
    "qasm/qiskit/sympy/cirq circuit+gate, decompile, circuit optimizer, truth_table, to_logicfun, repr), re-using objects across steps. "
    "Oracle: (i) the fingerprint of every step's result equals the fingerprint of the same closed recipe evaluated ALONE in a fresh "
    "interpreter; (ii) after every step the fingerprint of every live object equals the one recorded at its creation; (iii) a step raises "
    "only if the fresh run raises. Non-trivial = some live object is re-used by >=2 operations of which one is an algorithm / oraclize / "
    "defs / export, or the pool contains a name clash; distinct by canonical JSON of the case. Enumerated part: for EVERY legal function name "
    "bound in the namespace of an imported qlasskit module (about 200; words of the typed subset itself excluded) a fixed set of operations on "
    "functions so named (compile, bind x3, use as definition, Grover, oraclize) must give what it gives under a neutral name, be repeatable, "
    "and leave a fixed battery of unrelated later work (defs, bind, Grover, DJ, qasm, decompile, if-translation) unchanged"
)
ASSUMPTIONS = [
    "fingerprints: name, args, returns, srepr of expressions, gate list with parameters, qubit_map in order, qubit lists; exporter text / op list",
    "fresh interpreters run with the same PYTHONHASHSEED=0 (sympy orderings depend on it)",
]

CLASH_NAMES = ["copy", "reduce", "partial", "ast", "inspect", "Q", "flatten", "to_quantum", "oracle", "merge_expressions", "translate_ast", "Symbol"]
PLAIN_NAMES = ["f", "g", "h", "pred", "f"]


def budget(tier):
    return 40 if tier == "quick" else 600


def pred_cfg():
    return gen_prog.Cfg(int_widths=[2, 3], max_in_bits=3, max_args=1, depth=2, max_stmts=1, use_char=False, use_fixed=False, use_tuple=False, use_vidx=False)


def gen_cfg():
    return gen_prog.Cfg(int_widths=[2, 2, 3], max_in_bits=4, max_args=2, depth=2, max_stmts=2, use_char=False, use_fixed=False, use_vidx=False, ret_kinds=("bool", "int", "tuple"))


@st.composite
def case(draw):
    names = draw(st.permutations(CLASH_NAMES))[:2] + draw(st.permutations(PLAIN_NAMES))[:3]
    names = draw(st.permutations(names))
    progs = []
    # predicates (for algorithms)
    for i in range(2):
        t = draw(st.sampled_from([["int", 2], ["int", 3], ["tuple", [["bool"], ["bool"]]], ["list", ["bool"], 3]]))
        p = draw(gen_prog.program(pred_cfg(), args=[["a", t]], ret=["bool"], name=names[i]))
        progs.append({"kind": "pred", "prog": p})
    progs.append({"kind": "gen", "prog": draw(gen_prog.program(gen_cfg(), name=names[2]))})
    # a simon-able / general int function of one argument
    f1 = draw(gen_prog.program(pred_cfg(), args=[["a", ["int", 2]]], ret=["int", 2], name=names[3]))
    if draw(st.integers(0, 9)) < 7:
        # make sure if-statements (translated through generated temporary names) are part of most histories
        cond = ["idx", ["v", "a"], draw(st.integers(0, 1))]
        then = [["aug", "a", draw(st.sampled_from(["+", "^", "|"])), ["k", draw(st.integers(1, 3))]]]
        els = [["assign", "a", ["inv", ["v", "a"]]]] if draw(st.booleans()) else []
        f1["body"] = [["if", cond, then, els]] + f1["body"]
    progs.append({"kind": "fun1", "prog": f1})
    # parameterised
    pp = draw(gen_prog.program(gen_cfg(), args=[["a", ["int", 2]], ["p", ["int", 2]]], params=("p",), name=names[4]))
    pp["params"] = ["p"]
    progs.append({"kind": "param", "prog": pp})
    # caller of program 0
    c0 = progs[0]["prog"]
    caller = draw(gen_prog.program(gen_cfg(), args=[["a", c0["args"][0][1]], ["b", ["bool"]]], fns={c0["name"]: ([c0["args"][0][1]], ["bool"])}, name="caller"))
    progs.append({"kind": "caller", "prog": caller, "callee": 0})
    # a PARAMETERISED caller of program 0: compiled with defs=[...] it stays unbound and is bound several times
    pcaller = draw(gen_prog.program(gen_cfg(), args=[["a", c0["args"][0][1]], ["p", ["int", 2]]], params=("p",),
                                    fns={c0["name"]: ([c0["args"][0][1]], ["bool"])}, name="pcaller"))
    pcaller["params"] = ["p"]
    progs.append({"kind": "caller", "prog": pcaller, "callee": 0, "parametric": True})
    ops = []
    nops = draw(st.integers(3, 8))
    small = st.integers(0, 9)
    optd = st.fixed_dictionaries({"to_compile": st.just(True), "opt": st.sampled_from(["default", "fast", "fast"]), "uncompute": st.sampled_from([True, True, False])})
    # a prefix that makes several objects live: compile a few pool programs (the parameterised one included)
    for pi in draw(st.permutations([0, 1, 2, 3, 4]))[: draw(st.integers(2, 3))]:
        ops.append(["compile", pi, draw(optd)])
    if draw(st.integers(0, 9)) < 4:
        # a parameterised function compiled with defs=[live callee] and bound several times in a row
        ops.append(["compile", 0, draw(optd)])
        ops.append(["defs", 1, draw(optd)])
        for _ in range(draw(st.integers(2, 3))):
            ops.append(["bind_last", 0, {"p": draw(st.integers(0, 3))}])
    for _ in range(nops):
        k = draw(st.sampled_from(["compile", "compile", "compile", "bind", "bind", "bind", "defs", "defs", "oraclize", "grover", "grover", "dj", "bv", "simon", "export", "export", "decompile", "optimize", "tt", "logicfun", "logicfun", "repr"]))
        if k == "compile":
            ops.append([k, draw(small), draw(optd)])
        elif k == "bind":
            ops.append([k, draw(small), {"p": draw(st.integers(0, 3))}])
        elif k == "defs":
            ops.append([k, draw(small), draw(optd)])
        elif k == "oraclize":
            ops.append([k, draw(small), draw(st.sampled_from([True, False, 1, 2]))])
        elif k == "export":
            ops.append([k, draw(small), draw(st.sampled_from(["qasm", "qiskit", "sympy", "cirq"])), draw(st.sampled_from(["circuit", "gate"]))])
        else:
            ops.append([k, draw(small)])
    return {"programs": progs, "ops": ops}


def strategy(tier):
    return case()


_SNAP = {}


def _reset_library_globals():
    """every case starts from the library's import-time module state (cases must be independent:
    a case that pollutes a module namespace must not make a later, unrelated case fail)"""
    import importlib

    import sys

    import qlasskit.algorithms  # noqa: F401
    import qlasskit.decompiler  # noqa: F401

    for mn in sorted(m for m in sys.modules if m == "qlasskit" or m.startswith("qlasskit.")):
        mod = importlib.import_module(mn)
        if mn not in _SNAP:
            _SNAP[mn] = dict(mod.__dict__)
        else:
            for k_ in list(mod.__dict__):
                if k_ not in _SNAP[mn]:
                    del mod.__dict__[k_]
            mod.__dict__.update(_SNAP[mn])


# ---------------------------------------------------------------------------------------------
# enumerated part: a function NAMED like something living in one of the library's module namespaces
# ---------------------------------------------------------------------------------------------
DSL_WORDS = {
    "Tuple", "List", "Parameter", "Qlist", "Qmatrix", "Qtype", "Qbool", "Qchar", "Qint", "Qfixed", "bool", "int", "float", "len", "max", "min",
    "abs", "sum", "all", "any", "ord", "chr", "range", "print", "hex", "bin", "True", "False", "None",
}


def clash_names():
    """every legal python function name bound in the namespace of an imported qlasskit module, minus the words of the
    typed-python subset itself (type names, typing constructs, supported builtins)"""
    import keyword
    import sys

    import qlasskit  # noqa: F401
    import qlasskit.algorithms  # noqa: F401
    import qlasskit.decompiler  # noqa: F401
    import qlasskit.tools  # noqa: F401
    import qlasskit.types as T

    out = set()
    for mn in sorted(sys.modules):
        if mn == "qlasskit" or mn.startswith("qlasskit."):
            for k, v in list(sys.modules[mn].__dict__.items()):
                if k.startswith("_") or keyword.iskeyword(k) or not k.isidentifier() or k in DSL_WORDS:
                    continue
                if isinstance(v, type) and issubclass(v, T.Qtype):
                    continue
                out.add(k)
    return sorted(out | set(GATE_WORDS))


# gate names / words of the export targets (attributes of circuit classes, QASM gate names): legal function names too
GATE_WORDS = ["h", "x", "y", "z", "s", "t", "cx", "ccx", "swap", "p", "u", "id", "measure", "barrier", "data", "name", "qubits", "gate", "q"]


def _battery():
    """a fixed piece of 'later work' that has nothing to do with the clashing name; -> list of fingerprints"""
    from qlasskit import qlassf
    from qlasskit.algorithms import DeutschJozsa, Grover
    from qlasskit.decompiler import Decompiler

    out = []

    def step(f):
        try:
            out.append(json.loads(json.dumps(purity.fingerprint(f()), default=str)))
        except Exception as e:
            out.append("raised " + type(e).__name__)

    box = {}
    step(lambda: box.setdefault("neg", qlassf("def neg(a: bool) -> bool:\n    return not a\n")))
    step(lambda: qlassf("def caller(a: bool, b: bool) -> bool:\n    return neg(a) and b\n", defs=[box["neg"]]))
    step(lambda: box.setdefault("u", qlassf("def pw(p: Parameter[Qint[2]], a: Qint[2]) -> Qint[2]:\n    return a + p\n")).bind(p=1))
    step(lambda: box["u"].bind(p=2))
    step(lambda: box.setdefault("pr", qlassf("def pred(a: Qint[2]) -> bool:\n    return a == 2\n")))
    step(lambda: Grover(box["pr"]))
    step(lambda: DeutschJozsa(box["pr"]))
    step(lambda: box["pr"].circuit().export("circuit", "qasm"))
    step(lambda: Decompiler().decompile(box["pr"].circuit()))
    step(lambda: qlassf("def ifs(a: Qint[2], b: bool) -> Qint[2]:\n    if b:\n        a += 1\n    else:\n        a = a ^ 3\n    return a\n"))
    return out


def _clash_ops(name, full=False):
    """operations on functions called `name`; -> list of fingerprints with every name field removed
    (full: plus the textual exports, which contain the name)"""
    from qlasskit import qlassf
    from qlasskit.algorithms import Grover, oraclize

    out = []
    texts = []
    box = {}

    def strip_names(x):
        if isinstance(x, dict):
            return {k: strip_names(v) for k, v in x.items() if k != "name"}
        if isinstance(x, list):
            return [strip_names(v) for v in x]
        return x

    def step(f):
        try:
            out.append(strip_names(json.loads(json.dumps(purity.fingerprint(f()), default=str))))
        except Exception as e:
            out.append("raised " + type(e).__name__)

    step(lambda: box.setdefault("plain", qlassf(f"def {name}(a: bool, b: bool) -> bool:\n    return a and not b\n")))
    step(lambda: box.setdefault("u", qlassf(f"def {name}(c: Parameter[bool], a: bool, b: bool) -> bool:\n    return (a and c) ^ b\n")).bind(c=True))
    step(lambda: box["u"].bind(c=False))
    step(lambda: box["u"].bind(c=True))
    step(lambda: qlassf(f"def caller2(a: bool, b: bool) -> bool:\n    return {name}(a, b) or a\n", defs=[box["plain"]]))
    step(lambda: box.setdefault("pr", qlassf(f"def {name}(a: Qint[2]) -> bool:\n    return a == 1\n")))
    step(lambda: Grover(box["pr"]))
    step(lambda: oraclize(qlassf(f"def {name}(a: Qint[2]) -> Qint[2]:\n    return a + 1\n"), 2))
    step(lambda: box["plain"])
    step(lambda: box["u"].bind(c=True))
    # exports of the function so named; the function object itself must stay what it was (name included)
    def fp_plain():
        try:
            return json.dumps(purity.fingerprint(box["plain"]), default=str)
        except Exception as e:  # observing the object fails: a result like any other
            return "observing the function raised " + type(e).__name__

    fp0 = fp_plain() if "plain" in box else None
    for fw, mode in (("qiskit", "gate"), ("qiskit", "circuit"), ("qasm", "gate"), ("qasm", "circuit"), ("sympy", "circuit"), ("cirq", "circuit"), ("qiskit", "gate")):
        def ex(fw=fw, mode=mode):
            x = box["plain"]
            if fw == "qasm":
                return x.circuit().export(mode, "qasm")
            if mode == "gate":
                g = x.gate(fw)
                return ("qiskit-gate", g.num_qubits, [(i.operation.name, [g.definition.find_bit(q).index for q in i.qubits]) for i in g.definition.data])
            return str(x.export(fw)) if fw != "qiskit" else x.export(fw)
        if fw in ("qasm", "cirq"):
            # the text contains the function's name: judged for repeatability only
            try:
                texts.append(str(ex()))
            except Exception as e:
                texts.append("raised " + type(e).__name__)
        else:
            step(ex)
        if fp0 is not None:
            out.append({"frame": "unchanged"} if fp_plain() == fp0 else {"frame": "function object changed by export " + fw + ":" + mode})
    return out + [{"texts": texts}] if full else out


NEUTRAL = "zz_fn"


def judge_clash(case):
    name = case["clash"]
    feats = ["clash-sweep"]
    D = {"function_name": name}
    try:
        with progeval.time_limit(100):
            _reset_library_globals()
            ref_ops = _clash_ops(NEUTRAL)
            _reset_library_globals()
            before = _battery()
            got_full = _clash_ops(name, full=True)
            got_ops = got_full[:-1]
            after = _battery()
            again = _clash_ops(name, full=True)
    except progeval.Timeout:
        return {"status": "skip", "nontrivial": False, "features": feats + ["timeout"]}
    finally:
        _reset_library_globals()
    if any(isinstance(x, str) for x in ref_ops + before):
        return {"status": "skip", "nontrivial": False, "features": feats + ["reference-raises"], "detail": str([x for x in ref_ops + before if isinstance(x, str)])}
    for i, (a, b) in enumerate(zip(got_ops, ref_ops)):
        if a != b:
            return {"status": "violation", "kind": "clashing-name-changes-result", "detail": dict(D, step=i, with_name=json.dumps(a)[:300], with_neutral_name=json.dumps(b)[:300]), "features": feats}
    for i, (a, b) in enumerate(zip(after, before)):
        if a != b:
            return {"status": "violation", "kind": "later-work-differs-after-clashing-name", "detail": dict(D, step=i, after=json.dumps(a)[:300], before=json.dumps(b)[:300]), "features": feats}
    for i, (a, b) in enumerate(zip(again, got_full)):
        if a != b:
            return {"status": "violation", "kind": "clashing-name-not-repeatable", "detail": dict(D, step=i, second=json.dumps(a)[:300], first=json.dumps(b)[:300]), "features": feats}
    return {"status": "ok", "nontrivial": True, "features": feats, "rows": len(before) + 2 * len(got_ops)}


def _run_clash(case):
    import traceback

    try:
        return {"case": case, "res": judge(case)}
    except Exception:
        return {"case": case, "error": traceback.format_exc()}


def exhaustive(tier, pool):
    cases = [{"clash": n} for n in clash_names()]
    results = pool.map(_run_clash, cases, chunksize=2)
    keys, viol, feats, samples = [], [], {}, []
    for r in results:
        if "error" in r:
            raise RuntimeError("enumerated case crashed: " + r["error"] + "\n" + str(r["case"]))
        res = r["res"]
        for f in res.get("features", ()):
            feats[f] = feats.get(f, 0) + 1
        feats["clash:" + res["status"]] = feats.get("clash:" + res["status"], 0) + 1
        if res["status"] == "ok":
            keys.append("clash:" + r["case"]["clash"])
            if len(samples) < 2:
                samples.append(r["case"])
        if res["status"] == "violation" and res["kind"] not in [v[0] for v in viol]:
            viol.append((res["kind"], r["case"], res.get("detail")))
    return {"evaluations": len(cases), "keys": keys, "samples": samples, "violations": viol, "features": feats, "exhaustive": False}


def judge(case):  # noqa: C901
    if "clash" in case:
        return judge_clash(case)
    _reset_library_globals()
    feats = []
    srcs = []
    for p in case["programs"]:
        try:
            extra = None
            if p["kind"] == "caller":
                c0 = case["programs"][p["callee"]]["prog"]
                extra = {"fn:" + c0["name"]: ["bool"]}
            srcs.append(gen_prog.render_lib(p["prog"], extra))
        except gen_prog.GenTypeError:
            return {"status": "skip", "nontrivial": False, "features": ["gen-type-error"]}
    names = [p["prog"]["name"] for p in case["programs"]]
    clash = len(set(names)) < len(names) or any(n in CLASH_NAMES for n in names)

    live = []  # dict(obj, recipe, fp, kind, uses)
    history = []

    def pick(kinds, idx):
        c = [x for x in live if x["kind"] in kinds]
        return c[idx % len(c)] if c else None

    nontrivial = False
    for op in case["ops"]:
        k = op[0]
        feats.append("op:" + k)
        recipe = None
        operands = []
        if k == "compile":
            pi = op[1] % len(srcs)
            if case["programs"][pi]["kind"] == "caller":
                continue
            recipe = ["compile", srcs[pi], op[2]]
            kind = {"pred": "pred", "gen": "qf", "fun1": "fun1", "param": "unbound"}[case["programs"][pi]["kind"]]
        elif k in ("bind", "bind_last"):
            x = pick(("unbound",), op[1])
            if k == "bind_last":
                ub = [y for y in live if y["kind"] == "unbound"]
                x = ub[-1] if ub else None
            if not x:
                continue
            operands = [x]
            recipe = ["bind", ["live", x["obj"], x["recipe"]], op[2]]
            kind = "qf"
        elif k == "defs":
            callers = [i for i, p in enumerate(case["programs"]) if p["kind"] == "caller"]
            if not callers:
                continue
            ci = callers[op[1] % len(callers)]
            callee_src = srcs[case["programs"][ci]["callee"]]
            cands = [x for x in live if x["kind"] == "pred" and x["recipe"][0] == "compile" and x["recipe"][1] == callee_src]
            if not cands:
                continue
            x = cands[op[1] % len(cands)]
            operands = [x]
            recipe = ["defs", srcs[ci], [["live", x["obj"], x["recipe"]]], op[2]]
            kind = "unbound" if case["programs"][ci].get("parametric") else "qf"
        elif k == "oraclize":
            x = pick(("pred", "fun1"), op[1])
            if not x:
                continue
            val = op[2]
            if x["kind"] == "pred":
                val = bool(val)
            else:
                val = int(val) % 4
            operands = [x]
            recipe = ["oraclize", ["live", x["obj"], x["recipe"]], val]
            kind = "pred"
        elif k in ("grover", "dj", "bv"):
            x = pick(("pred",), op[1])
            if not x:
                continue
            operands = [x]
            recipe = [k, ["live", x["obj"], x["recipe"]]]
            kind = "alg"
        elif k == "simon":
            x = pick(("fun1", "pred"), op[1])
            if not x:
                continue
            operands = [x]
            recipe = [k, ["live", x["obj"], x["recipe"]]]
            kind = "alg"
        elif k == "export":
            x = pick(("pred", "qf", "fun1", "alg"), op[1])
            if not x:
                continue
            operands = [x]
            recipe = ["export", ["live", x["obj"], x["recipe"]], op[2], op[3]]
            kind = "value"
        elif k in ("decompile", "optimize"):
            x = pick(("pred", "qf", "fun1", "alg"), op[1])
            if not x:
                continue
            operands = [x]
            recipe = [k, ["live", x["obj"], x["recipe"]]]
            kind = "value"
        elif k in ("tt", "logicfun", "repr"):
            x = pick(("pred", "qf", "fun1"), op[1])
            if not x:
                continue
            operands = [x]
            recipe = [k, ["live", x["obj"], x["recipe"]]]
            kind = "value"
        if recipe is None:
            continue
        stripped = purity.strip(recipe)
        history.append(stripped)
        ev = purity.Evaluator()
        try:
            with progeval.time_limit(25):
                try:
                    obj = ev.ev(recipe)
                    got = json.loads(json.dumps(purity.fingerprint(obj), default=str))
                except purity._Propagate as e:
                    obj = None
                    got = "raised " + str(e)
        except progeval.Timeout:
            return {"status": "skip", "nontrivial": False, "features": feats + ["timeout"]}
        D = {"history": [json.dumps(h)[:400] for h in history], "step": len(history) - 1, "programs": srcs}
        # (ii) frame invariant over all live objects
        for i, x in enumerate(live):
            try:
                now = json.loads(json.dumps(purity.fingerprint(x["obj"]), default=str))
            except Exception as e:
                return {"status": "violation", "kind": "live-object-unusable:" + k, "detail": dict(D, victim_recipe=json.dumps(purity.strip(x["recipe"]))[:300], exc=repr(e)[:200]), "features": feats}
            if now != x["fp"]:
                diff = [kk for kk in now if isinstance(now, dict) and now.get(kk) != x["fp"].get(kk)] if isinstance(now, dict) else []
                return {"status": "violation", "kind": "live-object-changed:" + k, "detail": dict(D, victim_recipe=json.dumps(purity.strip(x["recipe"]))[:300], changed_fields=diff), "features": feats}
        # (i)+(iii) reference: the same recipe alone in a fresh interpreter
        try:
            ref = purity.eval_fresh(stripped)
        except Exception as e:
            return {"status": "skip", "nontrivial": False, "features": feats + ["fresh-eval-failed"], "detail": str(e)[:300]}
        if got != ref:
            if isinstance(got, str) or isinstance(ref, str):
                kindv = "raises-only-in-history" if isinstance(got, str) and not isinstance(ref, str) else "result-differs-from-fresh-run"
                return {"status": "violation", "kind": kindv + ":" + k, "detail": dict(D, in_history=str(got)[:200], fresh=str(ref)[:200]), "features": feats}
            diff = [kk for kk in got if got.get(kk) != ref.get(kk)] if isinstance(got, dict) and isinstance(ref, dict) else []
            return {"status": "violation", "kind": "result-differs-from-fresh-run:" + k, "detail": dict(D, differing_fields=diff, in_history=json.dumps(got)[:300], fresh=json.dumps(ref)[:300]), "features": feats}
        for x in operands:
            x["uses"].append(k)
            if len(x["uses"]) >= 2 and any(u in ("grover", "dj", "bv", "simon", "oraclize", "defs", "export") for u in x["uses"]):
                nontrivial = True
        if obj is not None and kind != "value":
            live.append({"obj": obj, "recipe": recipe, "fp": got, "kind": kind, "uses": []})
    if clash and len(history) >= 3:
        nontrivial = True
        feats.append("name-clash")
    return {"status": "ok", "nontrivial": nontrivial and len(history) >= 2, "features": feats, "rows": len(history)}
