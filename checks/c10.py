"""C10 - compilation is pure: no dependence on, or damage to, earlier work."""

import json

from hypothesis import strategies as st

from vlib import gen_prog, progeval, purity

ID = "C10"
SHARDS = 16
RULE = (
    "Hypothesis builds a pool of 3..5 programs (single-argument predicates, general functions, a parameterised function, a caller of a "
    "pool function; names drawn from a pool containing same-named functions and names living in qlasskit.qlassfun's module namespace: "
    "copy, reduce, partial, ast, inspect, Q, flatten, to_quantum, oracle, ...) and a history of 5..11 public API operations over LIVE "
    "objects (compile with varied options, bind, defs=[live], oraclize, Grover/DeutschJozsa/BernsteinVazirani/Simon construction, export "
    "qasm/qiskit/sympy/cirq circuit+gate, decompile, circuit optimizer, truth_table, to_logicfun, repr), re-using objects across steps. "
    "Oracle: (i) the fingerprint of every step's result equals the fingerprint of the same closed recipe evaluated ALONE in a fresh "
    "interpreter; (ii) after every step the fingerprint of every live object equals the one recorded at its creation; (iii) a step raises "
    "only if the fresh run raises. Non-trivial = some live object is re-used by >=2 operations of which one is an algorithm / oraclize / "
    "defs / export, or the pool contains a name clash; distinct by canonical JSON of the case"
)
ASSUMPTIONS = [
    "fingerprints: name, args, returns, srepr of expressions, gate list with parameters, qubit_map in order, qubit lists; exporter text / op list",
    "fresh interpreters run with the same PYTHONHASHSEED=0 (sympy orderings depend on it)",
]

CLASH_NAMES = ["copy", "reduce", "partial", "ast", "inspect", "Q", "flatten", "to_quantum", "oracle", "merge_expressions", "translate_ast", "Symbol"]
PLAIN_NAMES = ["f", "g", "h", "pred", "f"]


def budget(tier):
    return 40 if tier == "quick" else 1200


def pred_cfg():
    return gen_prog.Cfg(int_widths=[2, 3], max_in_bits=3, max_args=1, depth=2, max_stmts=1, use_char=False, use_fixed=False, use_tuple=False, use_vidx=False)


def gen_cfg():
    return gen_prog.Cfg(int_widths=[2, 2, 3], max_in_bits=4, max_args=2, depth=2, max_stmts=2, use_char=False, use_fixed=False, use_vidx=False, ret_kinds=("bool", "int", "tuple"))


@st.composite
def case(draw):
    names = draw(st.permutations(CLASH_NAMES))[:2] + draw(st.permutations(PLAIN_NAMES))[:3]
    names = draw(st.permutations(names))
    progs = []
    # predicates (for algorithms)
    for i in range(2):
        t = draw(st.sampled_from([["int", 2], ["int", 3], ["tuple", [["bool"], ["bool"]]], ["list", ["bool"], 3]]))
        p = draw(gen_prog.program(pred_cfg(), args=[["a", t]], ret=["bool"], name=names[i]))
        progs.append({"kind": "pred", "prog": p})
    progs.append({"kind": "gen", "prog": draw(gen_prog.program(gen_cfg(), name=names[2]))})
    # a simon-able / general int function of one argument
    f1 = draw(gen_prog.program(pred_cfg(), args=[["a", ["int", 2]]], ret=["int", 2], name=names[3]))
    if draw(st.integers(0, 9)) < 7:
        # make sure if-statements (translated through generated temporary names) are part of most histories
        cond = ["idx", ["v", "a"], draw(st.integers(0, 1))]
        then = [["aug", "a", draw(st.sampled_from(["+", "^", "|"])), ["k", draw(st.integers(1, 3))]]]
        els = [["assign", "a", ["inv", ["v", "a"]]]] if draw(st.booleans()) else []
        f1["body"] = [["if", cond, then, els]] + f1["body"]
    progs.append({"kind": "fun1", "prog": f1})
    # parameterised
    pp = draw(gen_prog.program(gen_cfg(), args=[["a", ["int", 2]], ["p", ["int", 2]]], params=("p",), name=names[4]))
    pp["params"] = ["p"]
    progs.append({"kind": "param", "prog": pp})
    # caller of program 0
    c0 = progs[0]["prog"]
    caller = draw(gen_prog.program(gen_cfg(), args=[["a", c0["args"][0][1]], ["b", ["bool"]]], fns={c0["name"]: ([c0["args"][0][1]], ["bool"])}, name="caller"))
    progs.append({"kind": "caller", "prog": caller, "callee": 0})
    ops = []
    nops = draw(st.integers(3, 8))
    small = st.integers(0, 9)
    optd = st.fixed_dictionaries({"to_compile": st.just(True), "opt": st.sampled_from(["default", "fast", "fast"]), "uncompute": st.sampled_from([True, True, False])})
    # a prefix that makes several objects live: compile a few pool programs (the parameterised one included)
    for pi in draw(st.permutations([0, 1, 2, 3, 4]))[: draw(st.integers(2, 3))]:
        ops.append(["compile", pi, draw(optd)])
    for _ in range(nops):
        k = draw(st.sampled_from(["compile", "compile", "compile", "bind", "bind", "bind", "defs", "oraclize", "grover", "grover", "dj", "bv", "simon", "export", "export", "decompile", "optimize", "tt", "logicfun", "logicfun", "repr"]))
        if k == "compile":
            ops.append([k, draw(small), draw(optd)])
        elif k == "bind":
            ops.append([k, draw(small), {"p": draw(st.integers(0, 3))}])
        elif k == "defs":
            ops.append([k, draw(small), draw(optd)])
        elif k == "oraclize":
            ops.append([k, draw(small), draw(st.sampled_from([True, False, 1, 2]))])
        elif k == "export":
            ops.append([k, draw(small), draw(st.sampled_from(["qasm", "qiskit", "sympy", "cirq"])), draw(st.sampled_from(["circuit", "gate"]))])
        else:
            ops.append([k, draw(small)])
    return {"programs": progs, "ops": ops}


def strategy(tier):
    return case()


_SNAP = {}


def _reset_library_globals():
    """every case starts from the library's import-time module state (cases must be independent:
    a case that pollutes a module namespace must not make a later, unrelated case fail)"""
    import importlib

    for mn in ("qlasskit.qlassfun", "qlasskit.algorithms.qalgorithm", "qlasskit.algorithms.grover"):
        mod = importlib.import_module(mn)
        if mn not in _SNAP:
            _SNAP[mn] = dict(mod.__dict__)
        else:
            for k_ in list(mod.__dict__):
                if k_ not in _SNAP[mn]:
                    del mod.__dict__[k_]
            mod.__dict__.update(_SNAP[mn])


def judge(case):  # noqa: C901
    _reset_library_globals()
    feats = []
    srcs = []
    for p in case["programs"]:
        try:
            extra = None
            if p["kind"] == "caller":
                c0 = case["programs"][p["callee"]]["prog"]
                extra = {"fn:" + c0["name"]: ["bool"]}
            srcs.append(gen_prog.render_lib(p["prog"], extra))
        except gen_prog.GenTypeError:
            return {"status": "skip", "nontrivial": False, "features": ["gen-type-error"]}
    names = [p["prog"]["name"] for p in case["programs"]]
    clash = len(set(names)) < len(names) or any(n in CLASH_NAMES for n in names)

    live = []  # dict(obj, recipe, fp, kind, uses)
    history = []

    def pick(kinds, idx):
        c = [x for x in live if x["kind"] in kinds]
        return c[idx % len(c)] if c else None

    nontrivial = False
    for op in case["ops"]:
        k = op[0]
        feats.append("op:" + k)
        recipe = None
        operands = []
        if k == "compile":
            pi = op[1] % len(srcs)
            if case["programs"][pi]["kind"] == "caller":
                continue
            recipe = ["compile", srcs[pi], op[2]]
            kind = {"pred": "pred", "gen": "qf", "fun1": "fun1", "param": "unbound"}[case["programs"][pi]["kind"]]
        elif k == "bind":
            x = pick(("unbound",), op[1])
            if not x:
                continue
            operands = [x]
            recipe = ["bind", ["live", x["obj"], x["recipe"]], op[2]]
            kind = "qf"
        elif k == "defs":
            callers = [i for i, p in enumerate(case["programs"]) if p["kind"] == "caller"]
            if not callers:
                continue
            ci = callers[0]
            callee_src = srcs[case["programs"][ci]["callee"]]
            cands = [x for x in live if x["kind"] == "pred" and x["recipe"][0] == "compile" and x["recipe"][1] == callee_src]
            if not cands:
                continue
            x = cands[op[1] % len(cands)]
            operands = [x]
            recipe = ["defs", srcs[ci], [["live", x["obj"], x["recipe"]]], op[2]]
            kind = "qf"
        elif k == "oraclize":
            x = pick(("pred", "fun1"), op[1])
            if not x:
                continue
            val = op[2]
            if x["kind"] == "pred":
                val = bool(val)
            else:
                val = int(val) % 4
            operands = [x]
            recipe = ["oraclize", ["live", x["obj"], x["recipe"]], val]
            kind = "pred"
        elif k in ("grover", "dj", "bv"):
            x = pick(("pred",), op[1])
            if not x:
                continue
            operands = [x]
            recipe = [k, ["live", x["obj"], x["recipe"]]]
            kind = "alg"
        elif k == "simon":
            x = pick(("fun1", "pred"), op[1])
            if not x:
                continue
            operands = [x]
            recipe = [k, ["live", x["obj"], x["recipe"]]]
            kind = "alg"
        elif k == "export":
            x = pick(("pred", "qf", "fun1", "alg"), op[1])
            if not x:
                continue
            operands = [x]
            recipe = ["export", ["live", x["obj"], x["recipe"]], op[2], op[3]]
            kind = "value"
        elif k in ("decompile", "optimize"):
            x = pick(("pred", "qf", "fun1", "alg"), op[1])
            if not x:
                continue
            operands = [x]
            recipe = [k, ["live", x["obj"], x["recipe"]]]
            kind = "value"
        elif k in ("tt", "logicfun", "repr"):
            x = pick(("pred", "qf", "fun1"), op[1])
            if not x:
                continue
            operands = [x]
            recipe = [k, ["live", x["obj"], x["recipe"]]]
            kind = "value"
        if recipe is None:
            continue
        stripped = purity.strip(recipe)
        history.append(stripped)
        ev = purity.Evaluator()
        try:
            with progeval.time_limit(25):
                try:
                    obj = ev.ev(recipe)
                    got = json.loads(json.dumps(purity.fingerprint(obj), default=str))
                except purity._Propagate as e:
                    obj = None
                    got = "raised " + str(e)
        except progeval.Timeout:
            return {"status": "skip", "nontrivial": False, "features": feats + ["timeout"]}
        D = {"history": [json.dumps(h)[:400] for h in history], "step": len(history) - 1, "programs": srcs}
        # (ii) frame invariant over all live objects
        for i, x in enumerate(live):
            try:
                now = json.loads(json.dumps(purity.fingerprint(x["obj"]), default=str))
            except Exception as e:
                return {"status": "violation", "kind": "live-object-unusable:" + k, "detail": dict(D, victim_recipe=json.dumps(purity.strip(x["recipe"]))[:300], exc=repr(e)[:200]), "features": feats}
            if now != x["fp"]:
                diff = [kk for kk in now if isinstance(now, dict) and now.get(kk) != x["fp"].get(kk)] if isinstance(now, dict) else []
                return {"status": "violation", "kind": "live-object-changed:" + k, "detail": dict(D, victim_recipe=json.dumps(purity.strip(x["recipe"]))[:300], changed_fields=diff), "features": feats}
        # (i)+(iii) reference: the same recipe alone in a fresh interpreter
        try:
            ref = purity.eval_fresh(stripped)
        except Exception as e:
            return {"status": "skip", "nontrivial": False, "features": feats + ["fresh-eval-failed"], "detail": str(e)[:300]}
        if got != ref:
            if isinstance(got, str) or isinstance(ref, str):
                kindv = "raises-only-in-history" if isinstance(got, str) and not isinstance(ref, str) else "result-differs-from-fresh-run"
                return {"status": "violation", "kind": kindv + ":" + k, "detail": dict(D, in_history=str(got)[:200], fresh=str(ref)[:200]), "features": feats}
            diff = [kk for kk in got if got.get(kk) != ref.get(kk)] if isinstance(got, dict) and isinstance(ref, dict) else []
            return {"status": "violation", "kind": "result-differs-from-fresh-run:" + k, "detail": dict(D, differing_fields=diff, in_history=json.dumps(got)[:300], fresh=json.dumps(ref)[:300]), "features": feats}
        for x in operands:
            x["uses"].append(k)
            if len(x["uses"]) >= 2 and any(u in ("grover", "dj", "bv", "simon", "oraclize", "defs", "export") for u in x["uses"]):
                nontrivial = True
        if obj is not None and kind != "value":
            live.append({"obj": obj, "recipe": recipe, "fp": got, "kind": kind, "uses": []})
    if clash and len(history) >= 3:
        nontrivial = True
        feats.append("name-clash")
    return {"status": "ok", "nontrivial": nontrivial and len(history) >= 2, "features": feats, "rows": len(history)}
