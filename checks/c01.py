"""C01 - boolean expressions mean what the Python source means."""

from hypothesis import strategies as st

from vlib import boolsem, gen_prog, progeval

ID = "C01"
RULE = (
    "Hypothesis builds typed programs of the documented subset (bool/Qint/Qfixed/Qchar/Tuple/Qlist/Qmatrix arguments and returns; "
    "boolean, comparison, arithmetic, bitwise, shift operators with mixed widths; if-expressions, if/else, for loops, aug-assignment, "
    "tuple unpacking, tuple-literal multi-assignment whose right-hand sides read the targets (a, b = b, a + b), builtins, list-constant lookups, "
    "argument and local names that coincide with or extend names the library generates (anc_0, q0, TRUE, _temptup, _ret0, _retval)) and, with low weight, programs wrapping one construct adjacent to the subset "
    "(negative space); each is translated under defaultOptimizer or fastOptimizer and its expression list is evaluated on ALL 2^n "
    "argument assignments (n<=12) against CPython executing the same source over instrumented fixed-width numbers (exact / wrap / "
    "undetermined regimes). Non-trivial = accepted program with >=2 operators or a statement other than return, at least one row "
    "judged in the exact regime and a non-constant result; distinct by canonical JSON of (program, optimizer)"
)
ASSUMPTIONS = [
    "reference semantics: mathematical integers with the width rules read off the library's result types (max for + - & | ^ and if-expressions, 2*max rounded into {2,4,6,8,12,16} for *); rows whose result the property leaves open (wrapped value reaching a non-ring operation, Python raising, documented precondition violated) are not judged",
    "vlib.boolsem evaluator; argument bit naming name.k / name.i.k restated in vlib.progeval",
    "a library exception is a clean rejection and never a C01 violation",
]
MAX_BITS = 12
SHARDS = 64


def budget(tier):
    return 1400 if tier == "quick" else 60000


@st.composite
def case(draw, deep=False):
    neg = draw(st.integers(0, 9)) == 0
    if neg:
        from vlib import gen_neg

        prog = draw(gen_neg.negative_program())
    else:
        if deep and draw(st.booleans()):
            # thorough tier: wider integers, more input bits, longer bodies
            cfg = gen_prog.Cfg(int_widths=[2, 3, 4, 4, 5, 6, 7, 8], max_in_bits=11, max_stmts=6, depth=3)
        else:
            cfg = gen_prog.Cfg()
        prog = draw(gen_prog.program(cfg))
    return {"prog": prog, "opt": draw(st.sampled_from(["default", "fast"]))}


def strategy(tier):
    return case(deep=(tier == "thorough"))


def judge(case):  # noqa: C901
    prog = case["prog"]
    neg = prog.get("neg")
    feats = ["opt:" + case["opt"]] + (["neg:" + neg] if neg else [])
    try:
        if neg:
            src = prog["src"]
        else:
            src = gen_prog.render_lib(prog)
            feats += gen_prog.features(prog)
    except gen_prog.GenTypeError as e:
        return {"status": "skip", "nontrivial": False, "features": feats + ["gen-type-error"], "detail": str(e)}
    nbits = sum(gen_prog.nbits(t) for _, t in prog["args"])
    if nbits > MAX_BITS:
        return {"status": "skip", "nontrivial": False, "features": feats + ["too-many-bits"]}
    try:
        qf, rej = progeval.compile_lib(src, case["opt"])
    except progeval.Timeout:
        return {"status": "skip", "nontrivial": False, "features": feats + ["timeout"]}
    if qf is None:
        return {"status": "rejected", "nontrivial": False, "features": feats + ["rejected:" + rej] + ([] if neg else ["rejected-in-subset"])}
    if neg and not prog.get("ref_src") and not prog.get("body"):
        # accepted a construct for which no reference is defined: nothing to compare with
        return {"status": "ok", "nontrivial": False, "features": feats + ["neg-accepted-unjudged"]}

    # --- shape of the translation
    exp_args = progeval.arg_bit_names(prog)
    got_args = [b for a in qf.args for b in a.bitvec]
    if exp_args != got_args:
        return {"status": "violation", "kind": "argument-bits", "detail": {"src": src, "expected": exp_args, "got": got_args}, "features": feats}
    exp_ret = progeval.ret_bit_names(prog)
    try:
        cols, mask = progeval.lib_columns(qf, nbits)
    except boolsem.FreeSymbol as fs:
        return {"status": "violation", "kind": "free-symbol", "detail": {"src": src, "symbol": str(fs), "expressions": [(str(s), str(e)) for s, e in qf.expressions][:40]}, "features": feats}
    except boolsem.UnsupportedNode as un:
        return {"status": "skip", "nontrivial": False, "features": feats + ["unsupported-node:" + str(un)]}
    if len(qf.returns.bitvec) != len(exp_ret):
        return {"status": "violation", "kind": "return-width", "detail": {"src": src, "expected": exp_ret, "got": list(qf.returns.bitvec)}, "features": feats}
    missing = [b for b in exp_ret if b not in cols]
    if missing:
        return {"status": "violation", "kind": "return-bit-undefined", "detail": {"src": src, "missing": missing, "defined": [str(s) for s, _ in qf.expressions][-12:]}, "features": feats}

    # --- reference
    try:
        if neg and prog.get("ref_src"):
            ref = progeval.RefRun.__new__(progeval.RefRun)
            from vlib import refsem

            from vlib import gen_neg

            ns = refsem.namespace()
            ns.update(gen_neg.EXTRA_NS)
            exec(compile(prog["ref_src"], "<reference>", "exec"), ns)
            ref.prog, ref.fn, ref.src = prog, ns[prog["name"]], prog["ref_src"]
        else:
            ref = progeval.RefRun(prog)
    except gen_prog.GenTypeError as e:
        return {"status": "skip", "nontrivial": False, "features": feats + ["gen-type-error"], "detail": str(e)}
    nrows = 1 << nbits
    counts = {"exact": 0, "partial": 0, "undetermined": 0, "pyerror": 0, "domain": 0, "reftype": 0}
    for r in range(nrows):
        st_, exp = ref.row(r)
        if st_ != "ok":
            counts[st_] = counts.get(st_, 0) + 1
            continue
        got = [(cols[b] >> r) & 1 for b in exp_ret]
        if any(e is None for e in exp):
            counts["partial"] += 1
        else:
            counts["exact"] += 1
        for b, e, g in zip(exp_ret, exp, got):
            if e is not None and e != g:
                _, plain = progeval.row_args(prog, r)
                return {
                    "status": "violation",
                    "kind": "expr-mismatch" + (":neg:" + neg if neg else ""),
                    "detail": {
                        "src": src,
                        "opt": case["opt"],
                        "args": dict(zip([a[0] for a in prog["args"]], plain)),
                        "bit": b,
                        "expected_bits": exp,
                        "library_bits": got,
                    },
                    "features": feats,
                }
    if counts["reftype"] == nrows:
        return {"status": "skip", "nontrivial": False, "features": feats + ["ref-type-error"]}

    # --- truth table agrees with the expression list (small functions)
    if nbits <= 6 and nbits + len(exp_ret) <= 20:
        try:
            with progeval.time_limit(5):
                hdr = qf.truth_table_header()
                tt = qf.truth_table()
        except progeval.Timeout:
            tt = None
            feats.append("truth-table-timeout")
        except Exception as e:
            return {"status": "violation", "kind": "truth-table-raises", "detail": {"src": src, "exc": repr(e)[:300]}, "features": feats}
        if tt is None:
            pass
        elif hdr != exp_args + exp_ret:
            return {"status": "violation", "kind": "truth-table-header", "detail": {"src": src, "header": hdr, "expected": exp_args + exp_ret}, "features": feats}
        elif len(tt) != nrows:
            return {"status": "violation", "kind": "truth-table-rows", "detail": {"src": src, "rows": len(tt)}, "features": feats}
        for i, line in enumerate(tt or []):
            ins = [1 if bool(x) else 0 for x in line[:nbits]]
            want_ins = [(i >> (nbits - 1 - j)) & 1 for j in range(nbits)]
            r = sum(b << j for j, b in enumerate(ins))
            outs = []
            for x in line[nbits:]:
                if x is True or x is False or str(x) in ("True", "False"):
                    outs.append(1 if str(x) == "True" else 0)
                else:
                    outs.append(str(x))
            exp_outs = [(cols[b] >> r) & 1 for b in exp_ret]
            if ins != want_ins or outs != exp_outs:
                return {
                    "status": "violation",
                    "kind": "truth-table-mismatch",
                    "detail": {"src": src, "row": i, "line": [str(x) for x in line], "expected_outputs": exp_outs},
                    "features": feats,
                }
        if tt is not None:
            feats.append("truth-table-checked")

    const = all(cols[b] in (0, mask) for b in exp_ret)
    ops = gen_prog.count_ops(prog) if not neg else 2
    nontrivial = (ops >= 2 or len(prog.get("body", [])) > 1) and counts["exact"] > 0 and not const
    if counts["exact"] == 0:
        feats.append("no-exact-row")
    if counts["partial"]:
        feats.append("has-wrap-rows")
    if counts["undetermined"]:
        feats.append("has-undetermined-rows")
    if counts["pyerror"]:
        feats.append("has-pyerror-rows")
    if const:
        feats.append("constant-function")
    return {"status": "ok", "nontrivial": nontrivial, "features": feats, "rows": counts["exact"] + counts["partial"]}


def health(status, features, n):
    out = []
    rej = features.get("rejected-in-subset", 0)
    if n and rej / n > 0.35:
        out.append(f"FAIL rejected fraction of subset programs {rej}/{n} above 35%")
    gte = features.get("gen-type-error", 0)
    if n and gte / n > 0.05:
        out.append(f"FAIL generator type errors {gte}/{n}")
    out.append(f"rejected={rej} timeouts={features.get('timeout', 0)} no-exact-row={features.get('no-exact-row', 0)}")
    return out
