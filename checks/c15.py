"""C15 - Grover search amplifies exactly the solutions of the predicate."""

import numpy as np
from hypothesis import strategies as st

from vlib import algos, boolsem, progeval, sims

ID = "C15"
SHARDS = 32
TOL = 1e-9
MAX_QUBITS = 17
RULE = (
    "Hypothesis draws a search register of 2..5 bits (thorough: up to 6) typed Qint[n] / Tuple[bool..] / Qlist[bool,n] / Tuple[Qint[2]..], a "
    "solution set S with 1 <= |S| <= N/4, and 3 syntactic forms of the predicate (disjunction of equalities, DNF over bits, xor of "
    "minterms, Shannon if-expressions, list lookup, or a non-boolean g with a target y searched through Grover(g, y)), each compiled "
    "under defaultOptimizer and fastOptimizer; n_matching=|S|, default iteration count. The exact distribution of the search register "
    "(dense state-vector simulation, other qubits traced out) must be the same for all forms/profiles, every solution more likely than "
    "every non-solution, total solution probability > 1/2; decode_output of every basis reading (register-only and full-register string) "
    "must give the value in the argument type; the predicate object must be unchanged. Non-trivial = >=2 forms whose circuits differ; "
    "distinct by canonical JSON of the case"
)
ASSUMPTIONS = [
    "a form whose own truth table (expression list, vlib.boolsem) is not S is a harness-side invalid form (C01's concern) and is dropped, not judged",
    "circuits above 17 qubits are not simulated (counted as skipped forms)",
    "vlib.sims dense simulator, tolerance 1e-9",
]


def budget(tier):
    return 130 if tier == "quick" else 4000


BOOL_FORMS = ["eq-or", "dnf", "xor-minterms", "shannon", "lookup", "target"]


@st.composite
def case(draw, max_n=5):
    n = draw(st.sampled_from([2, 3, 3, 4, 4, 5][: (6 if max_n >= 5 else 5)] + ([6] if max_n >= 6 else [])))
    N = 1 << n
    shape = draw(st.sampled_from(algos.shapes_for(n)))
    m = draw(st.integers(1, max(1, N // 4)))
    S = sorted(draw(st.lists(st.integers(0, N - 1), min_size=m, max_size=m, unique=True)))
    avail = [f for f in BOOL_FORMS if not (f in ("eq-or", "lookup", "target") and shape != "qint")]
    forms = draw(st.lists(st.sampled_from(avail), min_size=3, max_size=3))
    tvals = None
    if "target" in forms:
        mbits = draw(st.sampled_from([2, 3]))
        y = draw(st.integers(0, (1 << mbits) - 1))
        others = [v for v in range(1 << mbits) if v != y]
        tvals = {"m": mbits, "y": y, "table": [y if x in S else draw(st.sampled_from(others)) for x in range(N)], "gform": draw(st.sampled_from(["lookup", "bits"]))}
    return {"n": n, "shape": shape, "S": S, "forms": forms, "target": tvals}


def strategy(tier):
    return case(max_n=6 if tier == "thorough" else 5)


def form_src(case, form):
    n, shape, S = case["n"], case["shape"], case["S"]
    table = [1 if x in S else 0 for x in range(1 << n)]
    if form == "eq-or":
        return f"def pred(a: Qint[{n}]) -> bool:\n    return " + " or ".join(f"(a == {x})" for x in S) + "\n"
    if form == "target":
        t = case["target"]
        return algos.int_function_src("g", t["table"], n, t["m"], shape, t["gform"])
    return algos.bool_function_src("pred", table, n, shape, form)


def fingerprint(qf):
    from sympy import srepr

    qc = qf.circuit()
    return (
        qf.name,
        [(a.name, list(a.bitvec)) for a in qf.args],
        list(qf.returns.bitvec),
        [(srepr(s), srepr(e)) for s, e in qf.expressions],
        [sims.gate_sig(g) for g in qc.gates],
        sorted(qc.qubit_map.items()),
        qc.num_qubits,
        list(qf.input_qubits),
        list(qf.output_qubits),
    )


def judge(case):  # noqa: C901
    from qlasskit import qlassf
    from qlasskit.algorithms import Grover

    n, shape, S = case["n"], case["shape"], case["S"]
    N = 1 << n
    feats = [f"n:{n}", "shape:" + shape, "solutions:%d" % len(S)]
    dists = []  # (label, dist, gate sigs)
    mask = boolsem.full_mask(n)
    incols = boolsem.input_columns(n)
    want_col = sum(1 << x for x in S)
    for form in case["forms"]:
        for opt in ("default", "fast"):
            label = f"{form}/{opt}"
            try:
                src = form_src(case, form)
            except ValueError:
                feats.append("form-not-applicable:" + form)
                continue
            try:
                with progeval.time_limit(20):
                    qf = qlassf(src, to_compile=True, bool_optimizer=progeval.optimizer(opt))
            except progeval.Timeout:
                feats.append("timeout")
                continue
            except Exception as e:
                feats.append("form-rejected:" + progeval.rejection_key(e))
                continue
            # the form must really have solution set S (else it is C01's problem, not Grover's)
            try:
                cols, _ = progeval.lib_columns(qf, n)
            except (boolsem.FreeSymbol, boolsem.UnsupportedNode):
                feats.append("form-invalid")
                continue
            if form == "target":
                t = case["target"]
                ok = True
                for x in range(N):
                    v = sum(((cols[f"_ret.{k}"] >> x) & 1) << k for k in range(t["m"]))
                    ok = ok and (v == t["table"][x])
                if not ok:
                    feats.append("form-invalid")
                    continue
            elif cols["_ret"] != want_col:
                feats.append("form-invalid")
                continue
            if qf.circuit().num_qubits + 1 > MAX_QUBITS + (0 if form != "target" else -3):
                feats.append("form-too-big")
                continue
            before = fingerprint(qf)
            D = {"src": src, "opt": opt, "S": S, "n": n, "shape": shape}
            try:
                if form == "target":
                    G = Grover(qf, case["target"]["y"], n_matching=len(S))
                else:
                    G = Grover(qf, n_matching=len(S))
            except Exception as e:
                return {"status": "violation", "kind": "grover-construction-raises", "detail": dict(D, exc=repr(e)[:300]), "features": feats}
            after = fingerprint(qf)
            if before != after:
                diff = [i for i in range(len(before)) if before[i] != after[i]]
                return {"status": "violation", "kind": "predicate-object-modified", "detail": dict(D, changed_fields=diff, qubits_before=before[6], qubits_after=after[6]), "features": feats}
            if G.circuit().num_qubits > MAX_QUBITS:
                feats.append("form-too-big")
                continue
            oq = list(G.output_qubits)
            if oq != list(range(n)):
                return {"status": "violation", "kind": "grover-output-qubits", "detail": dict(D, output_qubits=oq), "features": feats}
            dist, nq = algos.output_distribution(G)
            # decoding of every outcome
            for x in range(N):
                r_short = algos.reading(x, n)
                r_full = algos.reading(x | (((1 << (nq - n)) - 1) << n) if nq > n else x, nq)
                for r in (r_short, r_full):
                    try:
                        got = G.decode_output(r)
                    except Exception as e:
                        return {"status": "violation", "kind": "grover-decode-raises", "detail": dict(D, reading=r, exc=repr(e)[:200]), "features": feats}
                    if not algos.same_decoded(got, algos.value_of_index(x, n, shape), shape):
                        return {"status": "violation", "kind": "grover-decode", "detail": dict(D, reading=r, decoded=repr(got), expected=repr(algos.value_of_index(x, n, shape))), "features": feats}
            pS = float(sum(dist[x] for x in S))
            mn = min(float(dist[x]) for x in S)
            mx = max([float(dist[x]) for x in range(N) if x not in S] or [0.0])
            if not (mn > mx + TOL):
                return {"status": "violation", "kind": "solution-not-more-likely", "detail": dict(D, min_solution=mn, max_other=mx, dist=[round(float(p), 6) for p in dist]), "features": feats}
            if not (pS > 0.5):
                return {"status": "violation", "kind": "solution-probability-low", "detail": dict(D, p_solutions=pS), "features": feats}
            dists.append((label, dist, [sims.gate_sig(g) for g in G.circuit().gates], src))
    if len(dists) < 2:
        return {"status": "skip", "nontrivial": False, "features": feats + ["fewer-than-2-forms"]}
    l0, d0, g0, s0 = dists[0]
    for l1, d1, g1, s1 in dists[1:]:
        if float(np.abs(d0 - d1).max()) > TOL:
            return {
                "status": "violation",
                "kind": "distribution-depends-on-form",
                "detail": {"S": S, "n": n, "shape": shape, "form_a": l0, "form_b": l1, "src_a": s0, "src_b": s1, "dist_a": [round(float(p), 6) for p in d0], "dist_b": [round(float(p), 6) for p in d1]},
                "features": feats,
            }
    differ = any(g1 != g0 for _, _, g1, _ in dists[1:])
    feats.append("forms-compared:%d" % len(dists))
    return {"status": "ok", "nontrivial": differ, "features": feats, "rows": N * len(dists)}
