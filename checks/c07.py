"""C07 - calling one compiled function from another is function composition."""

from hypothesis import strategies as st

from vlib import boolsem, gen_prog, progeval, refsem

ID = "C07"
SHARDS = 32
RULE = (
    "Hypothesis builds 1..2 callees (1..2 formals over bool / Qint[2..4] / Tuple or Qlist of those; bool, int or tuple results) and a "
    "caller with 1..3 calls whose actual arguments are plain variables, tuple elements of bool AND integer type, nested elements, "
    "repeated or swapped variables, boolean expressions (for bool formals), with call results used in arithmetic / comparisons / "
    "if-expressions; caller names are drawn from a pool containing the callee's formal names, '<callee>_<formal>' and the callee name "
    "prefix, tuple literals built from those for tuple-typed formals (in 60% of the cases the variable feeding formal j is deliberately called like another formal, plain or '<callee>_'-prefixed); delivery by defs=[...], by an inline def, or through oraclize(g, value). The caller's expression list is evaluated on ALL "
    "argument assignments against the reference with the callee applied to the actual values; free symbols and any change of the "
    "callee's fingerprint are violations. Non-trivial = a call whose argument is an element, repeat, swap or name clash and the caller "
    "result is not constant; distinct by canonical JSON of the case"
)
ASSUMPTIONS = [
    "actual and formal types match exactly (type-mismatched calls are undocumented and not generated)",
    "reference semantics of vlib/refsem.py; a call result is coerced to the callee's declared return type",
    "calls the library rejects with an exception are counted, not failed - except that a caller rejected with a tuple-literal argument and accepted once that literal is bound to a local variable first is a violation (the property quantifies over argument shapes)",
]


def budget(tier):
    return 800 if tier == "quick" else 30000


def callee_cfg():
    return gen_prog.Cfg(
        int_widths=[2, 2, 3, 4], max_in_bits=5, max_args=2, depth=2, max_stmts=1, use_char=False, use_fixed=False,
        use_vidx=False, ret_kinds=("bool", "bool", "int", "tuple"),
    )


def caller_cfg():
    return gen_prog.Cfg(
        int_widths=[2, 2, 3, 4], max_in_bits=8, max_args=3, depth=2, max_stmts=2, use_char=False, use_fixed=False,
        use_vidx=False, ret_kinds=("bool", "int", "tuple"),
    )


@st.composite
def case(draw):  # noqa: C901
    ncal = draw(st.sampled_from([1, 1, 2]))
    callees = []
    cnames = ["g", "h"]
    for i in range(ncal):
        ccfg = callee_cfg()
        if draw(st.integers(0, 9)) < 3:
            # nested tuple formals with multi-bit leaves: Tuple[Qint[2], Tuple[bool, Qint[2]]]
            ccfg.type_depth = 2
            ccfg.max_in_bits = 6
        cal = draw(gen_prog.program(ccfg, name=cnames[i]))
        # rename formals to a small pool so that clashes with caller names are possible
        callees.append(cal)
    fns = {c["name"]: ([a[1] for a in c["args"]], c["ret"]) for c in callees}
    # caller arguments: for every formal type either a plain variable or a tuple holding it
    formal_names = [a[0] for c in callees for a in c["args"]]
    pool = list(dict.fromkeys(formal_names + [f"{c['name']}_{a[0]}" for c in callees for a in c["args"]] + ["g_x", "gv", "p", "q", "r", "s"]))
    draw_names = draw(st.permutations(pool))
    naming = draw(st.sampled_from(["random", "random", "cross", "cross-plain", "formal-rotated"]))
    if naming != "random":
        # the caller's variable that feeds formal j is called like ANOTHER formal of the callee (plain or with the
        # '<callee>_' prefix the library gives to a definition's symbols)
        lead = []
        for c in callees:
            fs = [a[0] for a in c["args"]]
            rot = fs[1:] + fs[:1]
            lead += [x if naming == "formal-rotated" else f"{c['name']}_{x}" for x in rot]
        lead = list(dict.fromkeys(lead))
        draw_names = lead + [x for x in draw_names if x not in lead]
    args = []
    used_bits = 0
    ni = 0
    for c in callees:
        for a in c["args"]:
            t = a[1]
            shape = draw(st.sampled_from(["plain", "plain", "tuple", "tuple", "nested"]))
            if naming == "cross-plain":
                shape = "plain"
            if used_bits + gen_prog.nbits(t) > 9 or ni >= len(draw_names):
                continue
            nm = draw_names[ni]
            ni += 1
            if shape == "plain" or gen_prog.is_tuple(t):
                args.append([nm, t])
                used_bits += gen_prog.nbits(t)
            elif shape == "tuple":
                other = draw(st.sampled_from([["bool"], ["int", 2], ["bool"]]))
                elts = [other, t] if draw(st.booleans()) else [t, other]
                args.append([nm, ["tuple", elts]])
                used_bits += gen_prog.nbits(t) + gen_prog.nbits(other)
            else:
                inner = ["tuple", [t, ["bool"]]]
                args.append([nm, ["tuple", [["bool"], inner]]])
                used_bits += gen_prog.nbits(t) + 2
    if not args:
        args = [["p", ["bool"]]]
    if draw(st.booleans()) and used_bits < 8 and ni < len(draw_names):
        args.append([draw_names[ni], ["bool"]])
    caller = draw(gen_prog.program(caller_cfg(), name="f", args=args, fns=fns))
    delivery = draw(st.sampled_from(["defs", "defs", "inline", "oraclize"]))
    orc = None
    if delivery == "oraclize":
        c0 = callees[0]
        rt = c0["ret"]
        if len(c0["args"]) == 1 and rt[0] in ("bool", "int"):
            orc = draw(st.booleans()) if rt[0] == "bool" else draw(st.integers(0, (1 << rt[1]) - 1))
        else:
            delivery = "defs"
    return {"callees": callees, "caller": caller, "delivery": delivery, "oracle_value": orc, "opt": draw(st.sampled_from(["default", "fast"]))}


def strategy(tier):
    return case()


def fingerprint(qf):
    from sympy import srepr

    return (
        qf.name,
        [(a.name, str(a.ttype), list(a.bitvec)) for a in qf.args],
        (qf.returns.name, str(qf.returns.ttype), list(qf.returns.bitvec)),
        [(srepr(s), srepr(e)) for s, e in qf.expressions],
    )


def interesting_calls(caller, callees):
    """count calls whose arguments are not plain distinct same-named variables"""
    formals = {c["name"]: [a[0] for a in c["args"]] for c in callees}
    clash_names = set()
    for c in callees:
        for a in c["args"]:
            clash_names.add(a[0])
            clash_names.add(f"{c['name']}_{a[0]}")
    n = 0

    def walk(x):
        nonlocal n
        if isinstance(x, list) and x:
            if x[0] == "call" and x[1] in formals:
                args = x[2]
                roots = [gen_prog._root(a) if a[0] in ("v", "idx") else None for a in args]
                if any(a[0] != "v" for a in args) or len(set(map(str, args))) < len(args) or any(r in clash_names for r in roots if r):
                    n += 1
            for y in x:
                walk(y)

    walk(caller["body"])
    return n


def has_literal_arg(prog):
    found = False

    def walk(x):
        nonlocal found
        if isinstance(x, list) and x:
            if x[0] == "call" and any(a[0] in ("tup", "lst") for a in x[2]):
                found = True
            for y in x:
                walk(y)

    walk(prog["body"])
    return found


def hoisted_variant(prog, fn_keys):
    """the program with the tuple-literal arguments of calls in its top-level (non if / for) statements bound to fresh
    local variables first; None if there is no such argument"""
    import copy

    body = []
    n = 0

    def repl(x):
        nonlocal n
        if isinstance(x, list) and x:
            if x[0] == "call":
                newargs = []
                for a in x[2]:
                    a = repl(a)
                    if a[0] in ("tup", "lst"):
                        nm = "lit%d" % n
                        n += 1
                        pre.append(["assign", nm, a])
                        a = ["v", nm]
                    newargs.append(a)
                return ["call", x[1], newargs]
            return [repl(y) for y in x]
        return x

    for s in copy.deepcopy(prog["body"]):
        pre = []
        if s[0] in ("assign", "return", "aug"):
            s = s[:-1] + [repl(s[-1])]
        body.extend(pre)
        body.append(s)
    if n == 0:
        return None
    return dict(prog, body=body)


def judge(case):  # noqa: C901
    callees, caller = case["callees"], case["caller"]
    feats = ["delivery:" + case["delivery"], "opt:" + case["opt"], "callees:%d" % len(callees)]
    if not caller.get("ncalls") and case["delivery"] != "oraclize":
        return {"status": "skip", "nontrivial": False, "features": feats + ["no-call-generated"]}
    fns_env = {"fn:" + c["name"]: c["ret"] for c in callees}
    try:
        cal_src = [gen_prog.render_lib(c) for c in callees]
        caller_src = gen_prog.render_lib(caller, fns_env)
    except gen_prog.GenTypeError:
        return {"status": "skip", "nontrivial": False, "features": feats + ["gen-type-error"]}

    # --- compile the callees alone
    cal_qf = []
    for src in cal_src:
        try:
            qf, rej = progeval.compile_lib(src, case["opt"])
        except progeval.Timeout:
            return {"status": "skip", "nontrivial": False, "features": feats + ["timeout"]}
        if qf is None:
            return {"status": "rejected", "nontrivial": False, "features": feats + ["callee-rejected:" + rej]}
        cal_qf.append(qf)
    before = [fingerprint(q) for q in cal_qf]

    # --- reference functions
    try:
        ns = {}
        for c in callees:
            rr = progeval.RefRun(c, extra_ns=dict(ns))
            ns[c["name"]] = rr.fn
        if case["delivery"] == "oraclize":
            c0 = callees[0]
            val = case["oracle_value"]
            prog = {"name": "oracle", "args": [["v", c0["args"][0][1]]], "ret": ["bool"], "body": [["return", ["cmp", "==", ["call", c0["name"], [["v", "v"]]], ["k", val]]]]}
            ref = progeval.RefRun(prog, extra_ns=ns, extra_env=fns_env)
        else:
            prog = caller
            ref = progeval.RefRun(caller, extra_ns=ns, extra_env=fns_env)
    except gen_prog.GenTypeError:
        return {"status": "skip", "nontrivial": False, "features": feats + ["gen-type-error"]}

    # --- compile the caller
    from qlasskit import qlassf

    full_src = caller_src
    try:
        with progeval.time_limit(8):
            try:
                if case["delivery"] == "defs":
                    qf = qlassf(caller_src, defs=cal_qf, to_compile=False, bool_optimizer=progeval.optimizer(case["opt"]))
                elif case["delivery"] == "inline":
                    lines = caller_src.split("\n")
                    inner = []
                    for src in cal_src:
                        inner += ["    " + ln for ln in src.rstrip("\n").split("\n")]
                    full_src = "\n".join([lines[0]] + inner + lines[1:])
                    qf = qlassf(full_src, to_compile=False, bool_optimizer=progeval.optimizer(case["opt"]))
                else:
                    from qlasskit.algorithms import oraclize

                    full_src = f"oraclize({callees[0]['name']}, {case['oracle_value']!r})"
                    qf = oraclize(cal_qf[0], case["oracle_value"])
            except progeval.Timeout:
                raise
            except Exception as e:
                rej = {"status": "rejected", "nontrivial": False, "features": feats + ["rejected:" + progeval.rejection_key(e)]}
                if case["delivery"] == "defs":
                    hv = hoisted_variant(caller, set(fns_env))
                    if hv is not None:
                        # the same caller with every literal argument first bound to a local variable
                        try:
                            hsrc = gen_prog.render_lib(hv, fns_env)
                            qlassf(hsrc, defs=cal_qf, to_compile=False, bool_optimizer=progeval.optimizer(case["opt"]))
                        except progeval.Timeout:
                            raise
                        except Exception:
                            return rej
                        return {
                            "status": "violation",
                            "kind": "literal-argument-rejected",
                            "detail": {"callees": cal_src, "caller": caller_src, "exc": repr(e)[:300], "accepted_with_variables": hsrc, "opt": case["opt"]},
                            "features": feats,
                        }
                return rej
    except progeval.Timeout:
        return {"status": "skip", "nontrivial": False, "features": feats + ["timeout"]}
    detail0 = {"callees": cal_src, "caller": full_src, "opt": case["opt"]}
    if has_literal_arg(caller):
        feats.append("literal-argument")

    after = [fingerprint(q) for q in cal_qf]
    if before != after:
        i = [k for k in range(len(before)) if before[k] != after[k]][0]
        return {"status": "violation", "kind": "callee-modified:" + case["delivery"], "detail": dict(detail0, before=str(before[i])[:600], after=str(after[i])[:600]), "features": feats}

    nbits = sum(gen_prog.nbits(t) for _, t in prog["args"])
    if nbits > 10:
        return {"status": "skip", "nontrivial": False, "features": feats + ["too-many-bits"]}
    exp_args = progeval.arg_bit_names(prog)
    got_args = [b for a in qf.args for b in a.bitvec]
    if exp_args != got_args:
        return {"status": "violation", "kind": "argument-bits", "detail": dict(detail0, expected=exp_args, got=got_args), "features": feats}
    try:
        cols, mask = progeval.lib_columns(qf, nbits)
    except boolsem.FreeSymbol as fs:
        return {
            "status": "violation",
            "kind": "free-symbol",
            "detail": dict(detail0, symbol=str(fs), expressions=[(str(s), str(e)) for s, e in qf.expressions][:20]),
            "features": feats,
        }
    except boolsem.UnsupportedNode:
        return {"status": "skip", "nontrivial": False, "features": feats + ["unsupported-node"]}
    exp_ret = progeval.ret_bit_names(prog)
    missing = [b for b in exp_ret if b not in cols]
    if missing:
        return {"status": "violation", "kind": "return-bit-undefined", "detail": dict(detail0, missing=missing), "features": feats}
    exact = 0
    for r in range(1 << nbits):
        st_, exp = ref.row(r)
        if st_ != "ok":
            continue
        got = [(cols[b] >> r) & 1 for b in exp_ret]
        if all(e is not None for e in exp):
            exact += 1
        for b, e, g in zip(exp_ret, exp, got):
            if e is not None and e != g:
                _, plain = progeval.row_args(prog, r)
                return {
                    "status": "violation",
                    "kind": "composition-mismatch:" + case["delivery"],
                    "detail": dict(detail0, args=dict(zip([a[0] for a in prog["args"]], plain)), bit=b, expected_bits=exp, library_bits=got,
                                   expressions=[(str(s), str(e_)) for s, e_ in qf.expressions][:12]),
                    "features": feats,
                }
    const = all(cols[b] in (0, mask) for b in exp_ret)
    ic = interesting_calls(caller, callees) if case["delivery"] != "oraclize" else 1
    feats.append("interesting-calls:%d" % min(ic, 3))
    return {"status": "ok", "nontrivial": ic >= 1 and not const and exact > 0, "features": feats, "rows": exact}


def health(status, features, n):
    rej = status.get("rejected", 0)
    out = [f"rejected={rej} no-call={features.get('no-call-generated', 0)}"]
    if n and rej / n > 0.5:
        out.append(f"FAIL rejected fraction {rej}/{n}")
    return out
