"""C12 - the circuit boolean optimizer returns an equivalent, no larger circuit."""

import numpy as np
from hypothesis import strategies as st

from vlib import boolsem, gen_circ, sims

ID = "C12"
SHARDS = 32
CASE_TIMEOUT = 15  # seconds per case; a timed-out case is counted as skipped (symbolic blow-up on long feedback runs), never as a verdict
RULE = (
    "Hypothesis generates circuits on 1..5 qubits (and, one case in three, purely classical circuits on 10..16 qubits with swap triples on the highest qubits, compared on all 2^n basis states with the reversible simulator): classical sections of 1..8 gates (X/CX/CCX/MCX) between non-classical gates "
    "(H/Z/S/T/Y/P/CZ/CP/SWAP) and barriers, with boosted shapes (CX-swap triples and other pure permutations, sections cancelling to "
    "identity, computing into an occupied qubit, repeated gates); circuit_boolean_optimizer (no preserve list, internal compiler) must "
    "return a circuit on the same qubits with the same unitary (dense simulation), no more gates, leaving the input untouched. "
    "Non-trivial = the optimizer changed the gate list, or the circuit contains a swap/cancelling shape; distinct by canonical JSON of the circuit"
)
ASSUMPTIONS = ["vlib.sims dense simulator (validated against qiskit); tolerance 1e-9; equality is exact, not up to global phase"]
TOL = 1e-9


def budget(tier):
    return 1500 if tier == "quick" else 60000


@st.composite
def wide_classical(draw):
    """purely classical circuits on 10..16 qubits: sparse X/CX/CCX gates, swap triples (preferably on the
    highest qubits), cancelling pairs - compared through the reversible simulator on all 2^n basis states"""
    n = draw(st.integers(10, 16))
    gl = []
    if draw(st.integers(0, 9)) < 3:
        # a section spanning the whole register whose only non-trivial part is a qubit permutation
        a, b = (n - 1, n - 2) if draw(st.booleans()) else tuple(draw(gen_circ.qubits(n, 2)))
        xs = [["X", [q], None] for q in range(n) if q not in (a, b) and draw(st.integers(0, 9)) < 9]
        sw = [["CX", [a, b], None], ["CX", [b, a], None], ["CX", [a, b], None]]
        gl = xs + sw if draw(st.booleans()) else sw + xs
        return {"n": n, "gates": gl, "wide": True}
    for _ in range(draw(st.integers(1, 4))):
        k = draw(st.integers(0, 5))
        if k <= 1:
            a, b = draw(gen_circ.qubits(n, 2))
            if draw(st.booleans()):
                a, b = n - 1, n - 2
            gl += [["CX", [a, b], None], ["CX", [b, a], None], ["CX", [a, b], None]]
        elif k == 2:
            g = draw(gen_circ.gate(n, ["X", "CX", "CCX"]))
            gl += [g, [g[0], list(g[1]), None]]
        else:
            gl += draw(gen_circ.gate_list(n, ["X", "CX", "CCX", "BARRIER"], 1, 3))
    # touch every qubit so that the section spans the whole register
    if draw(st.booleans()):
        gl += [["X", [q], None] for q in range(n)]
    return {"n": n, "gates": gl, "wide": True}


def strategy(tier):
    small = gen_circ.mixed_circuit(1, 5, max_segments=4, run_max=8, identity=True)
    wide = wide_classical()
    return st.integers(0, 2).flatmap(lambda k: wide if k == 0 else small)  # (one_of de-duplicates repeated alternatives)


def judge(case):
    from qlasskit.decompiler import circuit_boolean_optimizer

    n = case["n"]
    qc = gen_circ.build(case)
    before = gen_circ.sigs(qc)
    feats = ["n:%d" % n]
    try:
        o = circuit_boolean_optimizer(qc)
    except Exception as e:
        import traceback

        tb = traceback.extract_tb(e.__traceback__)
        fr = [x for x in tb if "qlasskit" in x.filename]
        where = f"{fr[-1].filename.split('/')[-1]}:{fr[-1].name}" if fr else "?"
        return {"status": "violation", "kind": "optimizer-raises:" + type(e).__name__ + "@" + where, "detail": {"exc": repr(e)[:300], "circuit": case["gates"]}, "features": feats}
    if gen_circ.sigs(qc) != before or qc.num_qubits != n:
        return {"status": "violation", "kind": "input-circuit-modified", "detail": {"before": before, "after": gen_circ.sigs(qc)}, "features": feats}
    try:
        after = gen_circ.sigs(o)
    except sims.UnknownGate as e:
        return {"status": "violation", "kind": "unknown-gate-in-output", "detail": {"exc": str(e)}, "features": feats}
    if o.num_qubits != n:
        return {"status": "violation", "kind": "qubit-count-changed", "detail": {"n": n, "got": o.num_qubits, "circuit": case["gates"]}, "features": feats}
    if n > 6:
        # purely classical wide circuit: compare the permutations on all 2^n basis states (bit-parallel)
        feats.append("wide")
        mask = boolsem.full_mask(n)
        try:
            c0 = sims.rev_run(qc.gates, list(boolsem.input_columns(n)), mask)
            c1 = sims.rev_run(o.gates, list(boolsem.input_columns(n)), mask)
        except (sims.NotClassical, sims.UnknownGate) as e:
            return {"status": "violation", "kind": "malformed-output-gate", "detail": {"exc": str(e), "out": after, "circuit": case["gates"]}, "features": feats}
        if c0 != c1:
            q = [i for i in range(n) if c0[i] != c1[i]][0]
            return {"status": "violation", "kind": "unitary-changed", "detail": {"circuit": case["gates"], "optimized": after, "qubit": q, "basis_state": boolsem.first_diff_row(c0[q], c1[q])}, "features": feats}
    else:
        try:
            U0 = sims.unitary(n, qc.gates)
            U1 = sims.unitary(n, o.gates)
        except sims.UnknownGate as e:
            return {"status": "violation", "kind": "malformed-output-gate", "detail": {"exc": str(e), "out": after, "circuit": case["gates"]}, "features": feats}
        if float(np.abs(U0 - U1).max()) > TOL:
            return {"status": "violation", "kind": "unitary-changed", "detail": {"circuit": case["gates"], "optimized": after}, "features": feats}
    if o.num_gates > qc.num_gates:
        return {"status": "violation", "kind": "more-gates", "detail": {"circuit": case["gates"], "optimized": after}, "features": feats}
    changed = after != before
    if changed:
        feats.append("changed")
    names = [g[0] for g in case["gates"]]
    shape = False
    for i in range(len(case["gates"]) - 2):
        a, b, c = case["gates"][i : i + 3]
        if a[0] == b[0] == c[0] == "CX" and a[1] == c[1] and b[1] == a[1][::-1]:
            shape = True
            feats.append("has-swap-triple")
            break
    for i in range(len(case["gates"]) - 1):
        if case["gates"][i] == case["gates"][i + 1] and case["gates"][i][0] in gen_circ.CLASSICAL:
            shape = True
    return {"status": "ok", "nontrivial": (changed or shape) and len(names) >= 2, "features": feats, "rows": 1 << n}
