"""C12 - the circuit boolean optimizer returns an equivalent, no larger circuit."""

import numpy as np

from vlib import gen_circ, sims

ID = "C12"
SHARDS = 32
RULE = (
    "Hypothesis generates circuits on 1..5 qubits: classical sections of 1..8 gates (X/CX/CCX/MCX) between non-classical gates "
    "(H/Z/S/T/Y/P/CZ/CP/SWAP) and barriers, with boosted shapes (CX-swap triples and other pure permutations, sections cancelling to "
    "identity, computing into an occupied qubit, repeated gates); circuit_boolean_optimizer (no preserve list, internal compiler) must "
    "return a circuit on the same qubits with the same unitary (dense simulation), no more gates, leaving the input untouched. "
    "Non-trivial = the optimizer changed the gate list, or the circuit contains a swap/cancelling shape; distinct by canonical JSON of the circuit"
)
ASSUMPTIONS = ["vlib.sims dense simulator (validated against qiskit); tolerance 1e-9; equality is exact, not up to global phase"]
TOL = 1e-9


def budget(tier):
    return 1500 if tier == "quick" else 60000


def strategy(tier):
    return gen_circ.mixed_circuit(1, 5, max_segments=4, run_max=8)


def judge(case):
    from qlasskit.decompiler import circuit_boolean_optimizer

    n = case["n"]
    qc = gen_circ.build(case)
    before = gen_circ.sigs(qc)
    feats = ["n:%d" % n]
    try:
        o = circuit_boolean_optimizer(qc)
    except Exception as e:
        import traceback

        tb = traceback.extract_tb(e.__traceback__)
        fr = [x for x in tb if "qlasskit" in x.filename]
        where = f"{fr[-1].filename.split('/')[-1]}:{fr[-1].name}" if fr else "?"
        return {"status": "violation", "kind": "optimizer-raises:" + type(e).__name__ + "@" + where, "detail": {"exc": repr(e)[:300], "circuit": case["gates"]}, "features": feats}
    if gen_circ.sigs(qc) != before or qc.num_qubits != n:
        return {"status": "violation", "kind": "input-circuit-modified", "detail": {"before": before, "after": gen_circ.sigs(qc)}, "features": feats}
    try:
        after = gen_circ.sigs(o)
    except sims.UnknownGate as e:
        return {"status": "violation", "kind": "unknown-gate-in-output", "detail": {"exc": str(e)}, "features": feats}
    if o.num_qubits != n:
        return {"status": "violation", "kind": "qubit-count-changed", "detail": {"n": n, "got": o.num_qubits, "circuit": case["gates"]}, "features": feats}
    try:
        U0 = sims.unitary(n, qc.gates)
        U1 = sims.unitary(n, o.gates)
    except sims.UnknownGate as e:
        return {"status": "violation", "kind": "malformed-output-gate", "detail": {"exc": str(e), "out": after, "circuit": case["gates"]}, "features": feats}
    if float(np.abs(U0 - U1).max()) > TOL:
        return {"status": "violation", "kind": "unitary-changed", "detail": {"circuit": case["gates"], "optimized": after}, "features": feats}
    if o.num_gates > qc.num_gates:
        return {"status": "violation", "kind": "more-gates", "detail": {"circuit": case["gates"], "optimized": after}, "features": feats}
    changed = after != before
    if changed:
        feats.append("changed")
    names = [g[0] for g in case["gates"]]
    shape = False
    for i in range(len(case["gates"]) - 2):
        a, b, c = case["gates"][i : i + 3]
        if a[0] == b[0] == c[0] == "CX" and a[1] == c[1] and b[1] == a[1][::-1]:
            shape = True
            feats.append("has-swap-triple")
            break
    for i in range(len(case["gates"]) - 1):
        if case["gates"][i] == case["gates"][i + 1] and case["gates"][i][0] in gen_circ.CLASSICAL:
            shape = True
    return {"status": "ok", "nontrivial": (changed or shape) and len(names) >= 2, "features": feats, "rows": 1 << n}
