"""C06 - predicates compile to xor-oracles |x>|y> -> |x>|y xor f(x)>."""

from vlib import synthcheck

ID = "C06"
SHARDS = 64
RULE = (
    "same program generator as C02 restricted to functions returning one bool, optimizer {default, fast}, uncompute=True (40%: re-compiled on the same object); the circuit "
    "is simulated on ALL 2^(n+1) pairs (x, y) with y placed on the output qubit: the output must end as y xor f(x), inputs unchanged, "
    "all other qubits zero. Non-trivial = f not constant and at least one scratch qubit is touched; distinct by canonical JSON of the case"
)
ASSUMPTIONS = [
    "f is the library's own expression for _ret (C01 relates it to the source)",
    "vlib.sims reversible simulator",
]


def budget(tier):
    return 1200 if tier == "quick" else 40000


def strategy(tier):
    return synthcheck.case(bool_only_ret=True, uncompute_opts=(True,))


def judge(case):
    return synthcheck.judge(case, "c06")


health = synthcheck.health
