"""Helpers for the algorithm checks (C15, C16): source text for a boolean / integer
function given by its truth table in several syntactic forms, and exact output
distributions of algorithm circuits.
"""

import numpy as np

from vlib import sims

FORMS = ("dnf", "shannon", "lookup", "xor-minterms")


def arg_decl(n, shape):
    """annotation of the single argument holding n search bits"""
    if shape == "bool":
        assert n == 1
        return "bool"
    if shape == "qint":
        return f"Qint[{n}]"
    if shape == "tuple":
        return "Tuple[" + ", ".join(["bool"] * n) + "]"
    if shape == "qlist":
        return f"Qlist[bool, {n}]"
    if shape == "tuple-qint2":
        assert n % 2 == 0
        return "Tuple[" + ", ".join(["Qint[2]"] * (n // 2)) + "]"
    if shape == "nested":
        assert n == 4
        return "Tuple[Tuple[bool, Qint[2]], bool]"
    raise ValueError(shape)


def shapes_for(n):
    out = []
    if n == 1:
        out.append("bool")
    if n in (2, 3, 4, 5, 6, 7, 8):
        out.append("qint")
    if n >= 2:
        out += ["tuple", "qlist"]
    if n % 2 == 0 and n >= 4:
        out.append("tuple-qint2")
    if n == 4:
        out.append("nested")
    return out


def bit_expr(i, shape):
    if shape == "bool":
        return "a"
    if shape == "tuple-qint2":
        return f"a[{i // 2}][{i % 2}]"
    if shape == "nested":
        return ["a[0][0]", "a[0][1][0]", "a[0][1][1]", "a[1]"][i]
    return f"a[{i}]"


def minterm(x, n, shape):
    return "(" + " and ".join((bit_expr(i, shape) if (x >> i) & 1 else f"(not {bit_expr(i, shape)})") for i in range(n)) + ")"


def bool_body(table, n, shape, form):
    """python expression computing table[x] (x = sum bit_i 2^i) from the argument bits"""
    ones = [x for x in range(1 << n) if table[x]]
    if not ones:
        return "False" if form != "xor-minterms" else f"({bit_expr(0, shape)} and (not {bit_expr(0, shape)}))"
    if len(ones) == (1 << n):
        return "True" if form != "xor-minterms" else f"({bit_expr(0, shape)} or (not {bit_expr(0, shape)}))"
    if form == "dnf":
        return " or ".join(minterm(x, n, shape) for x in ones)
    if form == "xor-minterms":
        return " ^ ".join(minterm(x, n, shape) for x in ones)
    if form == "shannon":

        def rec(prefix, i):
            # prefix: fixed values of bits i+1..n-1 are not fixed; we expand from the top bit down
            sub = [table[x] for x in range(1 << n) if all(((x >> j) & 1) == v for j, v in prefix.items())]
            if all(sub):
                return "True"
            if not any(sub):
                return "False"
            hi = rec({**prefix, i: 1}, i - 1)
            lo = rec({**prefix, i: 0}, i - 1)
            return f"({hi} if {bit_expr(i, shape)} else {lo})"

        return rec({}, n - 1)
    raise ValueError(form)


def bool_function_src(name, table, n, shape, form):
    """source of `def name(a: <shape>) -> bool` with the given truth table"""
    head = f"def {name}(a: {arg_decl(n, shape)}) -> bool:\n"
    if form == "lookup":
        if shape != "qint":
            raise ValueError("lookup needs an integer argument")
        vals = ", ".join("True" if table[x] else "False" for x in range(1 << n))
        return head + f"    L = [{vals}]\n    return L[a]\n"
    return head + f"    return {bool_body(table, n, shape, form)}\n"


def forms_for(shape):
    return ["dnf", "shannon", "xor-minterms"] + (["lookup"] if shape == "qint" else [])


def int_function_src(name, table, n, m, shape, form):
    """`def name(a) -> Qint[m]` with table[x] in 0..2^m-1; forms: lookup (qint arg) or bits (tuple of per-bit shannon)"""
    head = f"def {name}(a: {arg_decl(n, shape)}) -> Qint[{m}]:\n"
    if form == "lookup":
        vals = ", ".join(str(table[x]) for x in range(1 << n))
        return head + f"    L = [{vals}]\n    return L[a]\n"
    if form == "bits":
        # build the value bit by bit with conditional additions of powers of two
        lines = [f"    r = Qint{m}(0)"]
        for k in range(m):
            bt = [(table[x] >> k) & 1 for x in range(1 << n)]
            cond = bool_body(bt, n, shape, "shannon")
            lines.append(f"    r = (r + Qint{m}({1 << k})) if ({cond}) else r")
        lines.append("    return r")
        return head + "\n".join(lines) + "\n"
    raise ValueError(form)


def output_distribution(alg):
    """exact distribution over alg.output_qubits (qubit j of the list = bit j of the index) of alg.circuit() on |0..0>"""
    qc = alg.circuit()
    n = qc.num_qubits
    sv = sims.statevector(n, qc.gates, 0)
    probs = np.abs(sv) ** 2
    oq = list(alg.output_qubits)
    return sims.marginal(probs, n, oq), n


def reading(index, width):
    """measured string (last qubit leftmost) of a basis index over `width` output qubits"""
    return format(index, f"0{width}b")


def value_of_index(x, n, shape):
    """the argument value spelled by search bits x, as a plain python structure"""
    if shape == "bool":
        return bool(x & 1)
    if shape == "qint":
        return x
    if shape in ("tuple", "qlist"):
        return tuple(bool((x >> i) & 1) for i in range(n))
    if shape == "tuple-qint2":
        return tuple((x >> (2 * j)) & 3 for j in range(n // 2))
    if shape == "nested":
        return ((bool(x & 1), (x >> 1) & 3), bool((x >> 3) & 1))
    raise ValueError(shape)


def same_decoded(got, exp, shape):
    if shape == "bool":
        return isinstance(got, bool) and got == exp
    if shape == "qint":
        return isinstance(got, int) and not isinstance(got, bool) and int(got) == exp
    if shape in ("tuple", "qlist"):
        return isinstance(got, tuple) and len(got) == len(exp) and all(isinstance(g, bool) and g == e for g, e in zip(got, exp))
    if shape == "tuple-qint2":
        return isinstance(got, tuple) and len(got) == len(exp) and all(isinstance(g, int) and not isinstance(g, bool) and int(g) == e for g, e in zip(got, exp))
    if shape == "nested":
        try:
            (b0, q), b3 = got
        except (TypeError, ValueError):
            return False
        return isinstance(b0, bool) and isinstance(b3, bool) and isinstance(q, int) and not isinstance(q, bool) and ((b0, int(q)), b3) == exp
    return False
