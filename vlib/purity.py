"""Evaluation of API 'recipes' and fingerprints of their results (C10).

A recipe is a closed term over program sources:
  ["compile", src, opts]            opts = {"to_compile": b, "opt": "default"|"fast", "uncompute": b}
  ["bind", R, {name: value}]
  ["defs", src, [R...], opts]       compile src with defs=[objects of R...]
  ["oraclize", R, value]
  ["grover", R] ["dj", R] ["bv", R] ["simon", R]
  ["export", R, framework, mode]    framework in qasm|qiskit|sympy|cirq
  ["decompile", R] ["optimize", R] ["tt", R] ["logicfun", R] ["repr", R]
Evaluating a recipe alone in a fresh interpreter gives the reference fingerprint of each node.
"""

import json
import os
import subprocess
import sys

from vlib import sims


def _opt(name):
    from qlasskit.boolopt import defaultOptimizer, fastOptimizer

    return {"default": defaultOptimizer, "fast": fastOptimizer}[name]


def fp_circuit(qc):
    return {
        "name": qc.name,
        "num_qubits": qc.num_qubits,
        "gates": [sims.gate_sig(g) for g in qc.gates],
        "qubit_map": list(qc.qubit_map.items()),
    }


def fingerprint(obj):  # noqa: C901
    """JSON-able fingerprint of any result object"""
    import ast

    from sympy import srepr

    tn = type(obj).__name__
    if tn == "UnboundQlassf":
        return {"kind": tn, "ast": ast.dump(obj.fun_ast), "parameters": {k: ast.dump(v) for k, v in obj.parameters.items()}}
    if tn == "QlassF":
        d = {
            "kind": tn,
            "name": obj.name,
            "args": [(a.name, str(a.ttype), list(a.bitvec)) for a in obj.args],
            "returns": (obj.returns.name, str(obj.returns.ttype), list(obj.returns.bitvec)),
            "expressions": [(srepr(s), srepr(e)) for s, e in obj.expressions],
        }
        if hasattr(obj, "_qcircuit"):
            d["circuit"] = fp_circuit(obj._qcircuit)
            d["input_qubits"] = list(obj.input_qubits)
            try:
                d["output_qubits"] = list(obj.output_qubits)
            except Exception as e:
                d["output_qubits"] = "raised " + type(e).__name__
        return d
    if tn in ("Grover", "DeutschJozsa", "BernsteinVazirani", "Simon"):
        return {"kind": tn, "circuit": fp_circuit(obj._qcircuit), "output_qubits": list(obj.output_qubits)}
    if tn == "QCircuit" or tn == "QCircuitEnhanced":
        return {"kind": "circuit", "circuit": fp_circuit(obj)}
    if tn == "DecompilerResults":
        return {"kind": tn, "sections": [(list(s.index), [sims.gate_sig(g) for g in s.gates], [(str(a), srepr(b)) for a, b in s.expressions]) for s in obj]}
    if tn == "QuantumCircuit":  # qiskit
        return {"kind": "qiskit", "num_qubits": obj.num_qubits, "ops": [(i.operation.name, [obj.find_bit(q).index for q in i.qubits], [float(p) for p in i.operation.params]) for i in obj.data]}
    if isinstance(obj, (str, int, float, bool)) or obj is None:
        return {"kind": "value", "value": obj}
    if isinstance(obj, (list, tuple)):
        try:
            return {"kind": "seq", "items": json.loads(json.dumps(obj, default=str))}
        except Exception:
            return {"kind": "seq", "items": [str(x) for x in obj]}
    return {"kind": tn, "str": str(obj)}


class Evaluator:
    """evaluates recipes; `live` maps id(recipe node) of already evaluated operands to objects"""

    def __init__(self):
        self.log = []  # (recipe, fingerprint or "raised X") for every node, post-order

    def ev(self, r):  # noqa: C901
        from qlasskit import qlassf

        k = r[0]
        try:
            if k == "live":
                return r[1]
            if k == "compile":
                o = r[2]
                obj = qlassf(r[1], to_compile=o["to_compile"], bool_optimizer=_opt(o["opt"]), uncompute=o["uncompute"])
            elif k == "bind":
                u = self.ev(r[1])
                vals = {n: (tuple(v) if isinstance(v, list) else v) for n, v in r[2].items()}
                obj = u.bind(**vals)
            elif k == "defs":
                ds = [self.ev(x) for x in r[2]]
                o = r[3]
                obj = qlassf(r[1], defs=ds, to_compile=o["to_compile"], bool_optimizer=_opt(o["opt"]), uncompute=o["uncompute"])
            elif k == "oraclize":
                from qlasskit.algorithms import oraclize

                obj = oraclize(self.ev(r[1]), r[2])
            elif k in ("grover", "dj", "bv", "simon"):
                from qlasskit.algorithms import BernsteinVazirani, DeutschJozsa, Grover, Simon

                cls = {"grover": Grover, "dj": DeutschJozsa, "bv": BernsteinVazirani, "simon": Simon}[k]
                obj = cls(self.ev(r[1]))
            elif k == "export":
                x = self.ev(r[1])
                if r[2] == "qasm":
                    obj = x.circuit().export(r[3], "qasm")
                elif r[3] == "gate":
                    g = x.gate(r[2])
                    obj = g if r[2] != "cirq" else ("cirq-gate-class", getattr(g, "__name__", str(g)))
                    if r[2] == "qiskit":
                        obj = ("qiskit-gate", g.name, g.num_qubits, [(i.operation.name, [g.definition.find_bit(q).index for q in i.qubits]) for i in g.definition.data])
                else:
                    obj = x.export(r[2])
                    if r[2] in ("cirq", "sympy"):
                        obj = str(obj)
            elif k == "decompile":
                from qlasskit.decompiler import Decompiler

                obj = Decompiler().decompile(self.ev(r[1]).circuit())
            elif k == "optimize":
                from qlasskit.decompiler import circuit_boolean_optimizer

                obj = circuit_boolean_optimizer(self.ev(r[1]).circuit())
            elif k == "tt":
                x = self.ev(r[1])
                obj = [x.truth_table_header(), [[str(c) for c in row] for row in x.truth_table()]]
            elif k == "logicfun":
                from sympy import srepr

                lf = self.ev(r[1]).to_logicfun()
                obj = [lf[0], [(a.name, list(a.bitvec)) for a in lf[1]], list(lf[2].bitvec), [(srepr(s), srepr(e)) for s, e in lf[3]]]
            elif k == "repr":
                obj = repr(self.ev(r[1]))
            else:
                raise ValueError(f"unknown recipe {k}")
            fp = fingerprint(obj)  # observing the result (qubit lists, expressions) is part of the operation
        except _Propagate:
            raise
        except Exception as e:
            self.log.append((key_of(r), "raised " + type(e).__name__))
            raise _Propagate(type(e).__name__)
        self.log.append((key_of(r), fp))
        return obj


class _Propagate(Exception):
    pass


def key_of(r):
    """canonical JSON of a recipe with live operands replaced by their own recipes"""
    return json.dumps(strip(r), sort_keys=True)


def strip(r):
    if r[0] == "live":
        return strip(r[2])
    out = []
    for x in r:
        if isinstance(x, list) and x and isinstance(x[0], str) and x[0] in RECIPE_HEADS:
            out.append(strip(x))
        elif isinstance(x, list) and x and all(isinstance(y, list) and y and isinstance(y[0], str) and y[0] in RECIPE_HEADS for y in x):
            out.append([strip(y) for y in x])
        else:
            out.append(x)
    return out


RECIPE_HEADS = {"live", "compile", "bind", "defs", "oraclize", "grover", "dj", "bv", "simon", "export", "decompile", "optimize", "tt", "logicfun", "repr"}


def eval_fresh(recipe, timeout=60):
    """evaluate a (stripped) recipe alone in a fresh interpreter; -> fingerprint of the top node or 'raised X'"""
    here = os.path.dirname(os.path.dirname(os.path.abspath(__file__)))
    env = dict(os.environ)
    env["PYTHONHASHSEED"] = "0"
    env["PYTHONPATH"] = os.pathsep.join([os.environ.get("VERIF_REPO", "/repo"), here])
    env["OMP_NUM_THREADS"] = "1"
    p = subprocess.run([sys.executable, "-m", "vlib.purity_fresh"], input=json.dumps(recipe), capture_output=True, text=True, env=env, timeout=timeout, cwd=here)
    if p.returncode != 0:
        raise RuntimeError("fresh evaluation failed: " + p.stderr[-800:])
    return json.loads(p.stdout.strip().split("\n")[-1])
