"""Shared runner: sharded Hypothesis exploration, replay tier, known findings,
collect-then-shrink of distinct root causes, evidence files.

A check module (checks/cNN.py) provides

    ID, RULE, ASSUMPTIONS               strings / list of strings
    budget(tier) -> int                 number of generated cases
    strategy(tier) -> SearchStrategy    JSON-able cases
    judge(case) -> dict                 see Verdict below
  optional
    exhaustive(tier, pool) -> dict      enumerated part (evaluations, keys, samples, violations, exhaustive)
    EXCLUDES = {name: pred(case)}       predicates named by open known findings
    selfcheck()                         raises on a broken harness
    SHARDS = n                          (default 16)

judge() returns a dict with
    status      "ok" | "violation" | "skip" | "rejected"
    nontrivial  bool
    features    iterable of short strings (generator-health classes)
    kind        (violation) short root-cause bucket name
    detail      (violation) anything JSON-able
    rows        optional int: size of the inner exhaustive enumeration
"""

import hashlib
import json
import os
import sys
import time
import traceback
import zlib
from collections import Counter

VERIF_DIR = os.path.dirname(os.path.dirname(os.path.abspath(__file__)))
OUT_DIR = os.path.join(VERIF_DIR, "out")
EVIDENCE_DIR = os.path.join(VERIF_DIR, "evidence")
REPLAY_DIR = os.path.join(VERIF_DIR, "replays")
KNOWN_FILE = os.path.join(VERIF_DIR, "known_findings.json")

MAX_BUCKETS = 6
N_SAMPLES = 8


class HarnessError(Exception):
    pass


class _Found(Exception):
    def __init__(self, case, res):
        super().__init__("violation")
        self.case = case
        self.res = res


def canon(case):
    return json.dumps(case, sort_keys=True, separators=(",", ":"), default=str)


def case_hash(case):
    return int.from_bytes(hashlib.blake2b(canon(case).encode(), digest_size=8).digest(), "big")


def shard_seed(seed, check_id, shard):
    return (int(seed) * 1000003 + zlib.crc32(check_id.encode()) * 31 + shard * 7919 + 17) % (2**62)


def load_check(check_id):
    import importlib

    import vlib.warm  # noqa: F401  (heavy imports complete before any per-case time limit can fire)

    return importlib.import_module("checks." + check_id.lower())


def load_known(check_id):
    if not os.path.exists(KNOWN_FILE):
        return []
    with open(KNOWN_FILE) as f:
        data = json.load(f)
    return [e for e in data.get("findings", []) if e.get("property") == check_id]


def active_excludes(mod, known):
    ex = getattr(mod, "EXCLUDES", {})
    out = []
    for e in known:
        if e.get("status") == "open" and e.get("exclude"):
            if e["exclude"] not in ex:
                raise HarnessError(f"known finding {e['id']} names unknown predicate {e['exclude']}")
            out.append((e["id"], ex[e["exclude"]]))
    return out


def safe_judge(mod, case, excludes):
    """judge with known-finding exclusion; harness exceptions are wrapped."""
    for fid, pred in excludes:
        try:
            hit = pred(case)
        except Exception as ex:  # predicate bug is a harness error
            raise HarnessError(f"exclude predicate {fid} raised {ex!r}")
        if hit:
            return {"status": "excluded", "nontrivial": False, "features": ["excluded:" + fid]}
    from vlib import progeval

    limit = int(os.environ.get("VERIF_CASE_TIMEOUT") or getattr(mod, "CASE_TIMEOUT", 120))
    try:
        with progeval.time_limit(limit):
            res = mod.judge(case)
    except progeval.Timeout:
        # a case that exhausts its time budget is inconclusive, never a verdict
        return {"status": "skip", "nontrivial": False, "features": ["case-timeout"]}
    except HarnessError:
        raise
    except Exception:
        raise HarnessError("judge raised:\n" + traceback.format_exc() + "\ncase=" + canon(case)[:2000])
    if res.get("status") not in ("ok", "violation", "skip", "rejected", "excluded"):
        raise HarnessError(f"bad verdict {res!r}")
    return res


def _settings(n, shrink, tier):
    from hypothesis import HealthCheck, Phase, Verbosity, settings

    phases = [Phase.generate] + ([Phase.shrink] if shrink else [])
    return settings(
        max_examples=max(1, n),
        database=None,
        deadline=None,
        derandomize=False,
        report_multiple_bugs=False,
        phases=phases,
        verbosity=Verbosity.quiet,
        suppress_health_check=[HealthCheck.too_slow, HealthCheck.data_too_large, HealthCheck.large_base_example],
    )


def _shard_worker(args):
    """Collect phase for one shard. Returns a plain dict (picklable)."""
    check_id, tier, seed, shard, n_examples = args
    t0 = time.time()
    try:
        import hypothesis
        from hypothesis import given

        mod = load_check(check_id)
        known = load_known(check_id)
        excludes = active_excludes(mod, known)
        strat = mod.strategy(tier)
        sseed = shard_seed(seed, check_id, shard)

        st = {
            "evaluations": 0,
            "status": Counter(),
            "features": Counter(),
            "nontrivial": set(),
            "samples": [],
            "violations": [],  # (kind, case, detail)
            "rows": 0,
            "seen_kinds": set(),
        }

        @hypothesis.seed(sseed)
        @_settings(n_examples, False, tier)
        @given(strat)
        def test(case):
            res = safe_judge(mod, case, excludes)
            st["evaluations"] += 1
            st["status"][res["status"]] += 1
            for f in res.get("features", ()):
                st["features"][f] += 1
            st["rows"] += int(res.get("rows", 0))
            if res["status"] == "ok" and res.get("nontrivial"):
                h = case_hash(case)
                if h not in st["nontrivial"]:
                    st["nontrivial"].add(h)
                    if len(st["samples"]) < N_SAMPLES:
                        st["samples"].append(case)
            if res["status"] == "violation":
                kind = res.get("kind", "violation")
                # keep the smallest witness per kind
                size = len(canon(case))
                cur = [v for v in st["violations"] if v[0] == kind]
                if not cur:
                    st["violations"].append((kind, case, res.get("detail"), size))
                elif size < cur[0][3]:
                    st["violations"].remove(cur[0])
                    st["violations"].append((kind, case, res.get("detail"), size))

        test()
        return {
            "shard": shard,
            "seed": sseed,
            "evaluations": st["evaluations"],
            "status": dict(st["status"]),
            "features": dict(st["features"]),
            "nontrivial": list(st["nontrivial"]),
            "samples": st["samples"],
            "violations": [(k, c, d) for (k, c, d, _) in st["violations"]],
            "rows": st["rows"],
            "wall": time.time() - t0,
            "error": None,
        }
    except BaseException:
        return {"shard": shard, "error": traceback.format_exc(), "wall": time.time() - t0}


def _shrink_worker(args):
    """Re-run one shard with shrinking, failing only on `kind`."""
    check_id, tier, seed, shard, n_examples, kind, fallback_case = args
    try:
        import hypothesis
        from hypothesis import given
        import hypothesis.internal.conjecture.engine as eng

        if os.environ.get("VERIF_MAX_SHRINKS"):
            eng.MAX_SHRINKS = int(os.environ["VERIF_MAX_SHRINKS"])
        elif tier == "quick":
            eng.MAX_SHRINKS = 150
        mod = load_check(check_id)
        known = load_known(check_id)
        excludes = active_excludes(mod, known)
        strat = mod.strategy(tier)
        sseed = shard_seed(seed, check_id, shard)

        @hypothesis.seed(sseed)
        @_settings(n_examples, True, tier)
        @given(strat)
        def test(case):
            res = safe_judge(mod, case, excludes)
            if res["status"] == "violation" and res.get("kind", "violation") == kind:
                raise _Found(case, res)

        try:
            test()
        except _Found as f:
            return {"kind": kind, "case": f.case, "detail": f.res.get("detail"), "shrunk": True}
        except BaseException:
            return {"kind": kind, "case": fallback_case, "detail": "shrink pass failed: " + traceback.format_exc()[-500:], "shrunk": False}
        return {"kind": kind, "case": fallback_case, "detail": "not reproduced in shrink pass", "shrunk": False}
    except BaseException:
        return {"kind": kind, "case": fallback_case, "detail": traceback.format_exc()[-500:], "shrunk": False}


class _Pool:
    """map() over worker processes with a watchdog: a dead worker or a stall becomes a harness error
    (exit 2) instead of a hang.  Thin wrapper over concurrent.futures.ProcessPoolExecutor."""

    STALL_S = int(os.environ.get("VERIF_STALL_S", "2400"))

    def __init__(self, ctx, n):
        from concurrent.futures import ProcessPoolExecutor

        self.ex = ProcessPoolExecutor(max_workers=n, mp_context=ctx)

    def __enter__(self):
        return self

    def __exit__(self, *a):
        procs = list(getattr(self.ex, "_processes", {}).values())
        self.ex.shutdown(wait=False, cancel_futures=True)
        # do not rely on the executor's exit handshake (it has been seen to block forever with
        # idle workers): the work is done or abandoned at this point, terminate the workers
        for p_ in procs:
            try:
                p_.terminate()
            except Exception:
                pass
        return False

    def map(self, fn, items, chunksize=1):
        from concurrent.futures import FIRST_COMPLETED, wait
        from concurrent.futures.process import BrokenProcessPool

        items = list(items)
        if chunksize > 1:
            chunks = [items[i : i + chunksize] for i in range(0, len(items), chunksize)]
            futs = [self.ex.submit(_run_chunk, fn, c) for c in chunks]
        else:
            futs = [self.ex.submit(fn, it) for it in items]
        pending = set(futs)
        while pending:
            done, pending = wait(pending, timeout=self.STALL_S, return_when=FIRST_COMPLETED)
            if not done:
                raise HarnessError(f"no shard finished within {self.STALL_S}s ({len(pending)} pending): worker pool stalled")
        out = []
        for f in futs:
            try:
                r = f.result()
            except BrokenProcessPool as e:
                raise HarnessError(f"a worker process died: {e!r}")
            if chunksize > 1:
                out.extend(r)
            else:
                out.append(r)
        return out


def _run_chunk(fn, chunk):
    return [fn(x) for x in chunk]


def write_replay(check_id, name, case, kind, detail, directory=None):
    d = directory or os.path.join(OUT_DIR, check_id)
    os.makedirs(d, exist_ok=True)
    path = os.path.join(d, name)
    with open(path, "w") as f:
        json.dump({"property": check_id, "kind": kind, "detail": detail, "case": case}, f, indent=1, default=str, sort_keys=True)
    return path


def replay_file(mod, path, excludes=()):
    with open(path) as f:
        data = json.load(f)
    return data, safe_judge(mod, data["case"], excludes)


def run_check(check_id, tier, seed, replay=None):
    t0 = time.time()
    check_id = check_id.upper()
    os.environ["VERIF_TIER_ACTIVE"] = tier
    mod = load_check(check_id)
    known = load_known(check_id)
    violations = []  # (kind, replay path)
    notes = []

    if hasattr(mod, "selfcheck"):
        try:
            mod.selfcheck()
        except Exception:
            raise HarnessError("selfcheck failed:\n" + traceback.format_exc())

    # ---- single replay mode
    if replay:
        data, res = replay_file(mod, replay)
        if res["status"] == "violation":
            print(f"VIOLATION property={check_id} replay={replay}")
            print("  kind:", res.get("kind"), "detail:", json.dumps(res.get("detail"), default=str)[:1500])
            return 1
        print(f"replay {replay}: status={res['status']}")
        return 0

    excludes = active_excludes(mod, known)

    # ---- known findings: replay the witnesses (without the exclusion)
    known_lines = []
    open_witness = set()
    for e in known:
        if e.get("status") != "open":
            continue
        wpath = os.path.join(VERIF_DIR, e["witness"])
        open_witness.add(os.path.abspath(wpath))
        data, res = replay_file(mod, wpath)
        if res["status"] == "violation":
            line = f"KNOWN-FINDING: property={check_id} {e['id']}: {e['what']}"
            print(line)
            known_lines.append(line)
        else:
            notes.append(f"known finding {e['id']} no longer reproduces (status={res['status']})")
            print(f"NOTE: known finding {e['id']} witness no longer fails (status={res['status']})")

    # ---- regression replay tier
    rdir = os.path.join(REPLAY_DIR, check_id)
    n_replayed = 0
    replay_nontrivial = set()
    if os.path.isdir(rdir):
        for fn in sorted(os.listdir(rdir)):
            if not fn.endswith(".json"):
                continue
            p = os.path.join(rdir, fn)
            if os.path.abspath(p) in open_witness:
                continue
            data, res = replay_file(mod, p, excludes)
            n_replayed += 1
            if res["status"] == "violation":
                violations.append((res.get("kind", "violation"), p, res.get("detail")))
            elif res["status"] == "ok" and res.get("nontrivial"):
                replay_nontrivial.add(case_hash(data["case"]))

    import multiprocessing as mp

    nshards = int(os.environ.get("VERIF_SHARDS", getattr(mod, "SHARDS", 16)))
    if tier == "thorough":
        nshards *= int(getattr(mod, "THOROUGH_SHARD_FACTOR", 4))
    total = int(os.environ.get("VERIF_BUDGET") or mod.budget(tier))
    per = max(1, (total + nshards - 1) // nshards)

    ctx = mp.get_context("forkserver")
    try:
        ctx.set_forkserver_preload(["vlib.runner", "hypothesis", "vlib.warm"])
    except Exception:
        pass
    agg = {
        "evaluations": 0,
        "status": Counter(),
        "features": Counter(),
        "nontrivial": set(replay_nontrivial),
        "samples": [],
        "rows": 0,
        "shard_seeds": [],
    }
    exhaustive_info = None
    found = {}  # kind -> (shard, case, detail)

    with _Pool(ctx, min(nshards, os.cpu_count() or 1)) as pool:
        # enumerated part first (may use the pool)
        if hasattr(mod, "exhaustive"):
            try:
                exhaustive_info = mod.exhaustive(tier, pool)
            except Exception:
                raise HarnessError("exhaustive part raised:\n" + traceback.format_exc())
            agg["evaluations"] += exhaustive_info.get("evaluations", 0)
            agg["nontrivial"].update(exhaustive_info.get("keys", ()))
            agg["samples"].extend(exhaustive_info.get("samples", [])[:4])
            for k, v in exhaustive_info.get("features", {}).items():
                agg["features"][k] += v
            for kind, case, detail in exhaustive_info.get("violations", []):
                if kind not in found:
                    found[kind] = (None, case, detail)

        if total > 0:
            jobs = [(check_id, tier, seed, s, per) for s in range(nshards)]
            results = pool.map(_shard_worker, jobs, chunksize=1)
        else:
            results = []

        for r in results:
            if r.get("error"):
                raise HarnessError(f"shard {r['shard']} failed:\n{r['error']}")
            agg["evaluations"] += r["evaluations"]
            agg["status"].update(r["status"])
            agg["features"].update(r["features"])
            agg["nontrivial"].update(r["nontrivial"])
            agg["rows"] += r["rows"]
            agg["shard_seeds"].append(r["seed"])
            for c in r["samples"]:
                if len(agg["samples"]) < N_SAMPLES:
                    agg["samples"].append(c)
            for kind, case, detail in r["violations"]:
                if kind not in found or (found[kind][0] is not None and len(canon(case)) < len(canon(found[kind][1]))):
                    found[kind] = (r["shard"], case, detail)

        # ---- shrink pass for distinct kinds
        kinds = sorted(found)[:MAX_BUCKETS]
        sjobs = []
        for kind in kinds:
            shard, case, detail = found[kind]
            if shard is None:
                continue
            sjobs.append((check_id, tier, seed, shard, per, kind, case))
        shrunk = {}
        if sjobs and os.environ.get("VERIF_NO_SHRINK") != "1":
            for r in pool.map(_shrink_worker, sjobs, chunksize=1):
                shrunk[r["kind"]] = r

    for i, kind in enumerate(sorted(found)):
        shard, case, detail = found[kind]
        if kind in shrunk and shrunk[kind]["shrunk"]:
            case, detail = shrunk[kind]["case"], shrunk[kind]["detail"]
        safe_kind = "".join(ch if ch.isalnum() else "_" for ch in kind)[:60]
        p = write_replay(check_id, f"viol_{safe_kind}.json", case, kind, detail)
        violations.append((kind, p, detail))

    wall = time.time() - t0
    for kind, p, detail in violations:
        print(f"VIOLATION property={check_id} replay={p}")
        print(f"  kind={kind} detail={json.dumps(detail, default=str)[:1200]}")

    # ---- health
    health = []
    if hasattr(mod, "health"):
        health = mod.health(dict(agg["status"]), dict(agg["features"]), agg["evaluations"]) or []

    samples = agg["samples"][:N_SAMPLES]
    if not samples and exhaustive_info:
        samples = exhaustive_info.get("samples", [])[:N_SAMPLES]
    evidence = {
        "property_id": check_id,
        "tier": tier,
        "seed": int(seed),
        "level": getattr(mod, "LEVEL", "exploration"),
        "coverage": {
            "evaluations": int(agg["evaluations"]) + n_replayed,
            "distinct_nontrivial": len(agg["nontrivial"]),
            "rule": mod.RULE,
            "samples": samples,
            "exhaustive": bool(exhaustive_info.get("exhaustive")) if exhaustive_info and total == 0 else False,
            "status_counts": dict(agg["status"]),
            "feature_counts": dict(sorted(agg["features"].items())),
            "inner_rows_enumerated": int(agg["rows"]),
            "replayed_regressions": n_replayed,
            "excluded_known": int(agg["status"].get("excluded", 0)),
            "known_findings_reported": known_lines,
            "shards": nshards,
            "shard_seeds": agg["shard_seeds"][:4],
            "generator_health": health,
            "notes": notes,
        },
        "assumptions": list(getattr(mod, "ASSUMPTIONS", [])),
        "wall_s": round(wall, 2),
        "violations": len(violations),
    }
    if exhaustive_info:
        evidence["coverage"]["enumerated_part"] = {
            k: v for k, v in exhaustive_info.items() if k not in ("keys", "samples", "violations", "features")
        }
    os.makedirs(EVIDENCE_DIR, exist_ok=True)
    with open(os.path.join(EVIDENCE_DIR, f"{check_id}.json"), "w") as f:
        json.dump(evidence, f, indent=1, default=str)

    walls = sorted(round(r.get("wall", 0), 1) for r in results)
    if os.environ.get("VERIF_DEBUG"):
        print("shard walls:", walls)
    print(
        f"{check_id} tier={tier} seed={seed}: {evidence['coverage']['evaluations']} cases, "
        f"{len(agg['nontrivial'])} distinct non-trivial, status={dict(agg['status'])}, "
        f"{len(violations)} violation(s), {wall:.1f}s"
    )
    bad_health = [h for h in health if h.startswith("FAIL")]
    if bad_health and not violations:
        raise HarnessError("generator health: " + "; ".join(bad_health))
    if len(agg["nontrivial"]) < 2 and not violations:
        raise HarnessError("fewer than 2 distinct non-trivial cases were judged")
    return 1 if violations else 0
