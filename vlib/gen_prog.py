"""G-PROG: typed generator of programs of the documented qlasskit subset.

A program is JSON:
  {"name": f, "args": [[name, type]...], "ret": type, "body": [stmt...]}
type  ["bool"] | ["int", w] | ["fixed", i, f] | ["char"] | ["tuple", [t..]] | ["list", t, n] | ["matrix", t, n, m]
expr  ["v", name] | ["k", const] | ["not", e] | ["bop", "and"|"or", [e..]] | ["bin", op, l, r]
      | ["sh", op, e, c] | ["pow", e, c] | ["mod", e, m] | ["inv", e] | ["cmp", op, l, r] | ["ife", c, t, f]
      | ["idx", e, k] | ["call", fn, [e..]] | ["tup", [e..]] | ["lst", [e..]] | ["vidx", L, i] | ["vidx2", L, i, j]
stmt  ["assign", name, e] | ["aug", name, op, e] | ["unpack", [names], e] | ["if", c, [s..], [s..]]
      | ["for", var, iter, [s..]]   iter = ["range", a, b?] | ["over", e]
      | ["return", e]

render_lib(prog)  -> source handed to qlassf
render_ref(prog)  -> source for the reference run (loops unrolled, static width annotations)
"""

from fractions import Fraction

from hypothesis import strategies as st

from vlib import refsem

QINT_W = [2, 3, 4, 5, 6, 7, 8, 12, 16]
QFIXED = [(1, 2), (1, 3), (1, 4), (1, 6), (2, 2), (2, 3), (2, 4), (2, 6), (3, 3), (3, 4), (3, 6), (4, 4), (4, 6)]

BOOL = ["bool"]
CHAR = ["char"]


# ------------------------------------------------------------------ types


def expand(t):
    if t[0] == "list":
        return ["tuple", [expand(t[1])] * t[2]]
    if t[0] == "matrix":
        return ["tuple", [["tuple", [expand(t[1])] * t[3]]] * t[2]]
    if t[0] == "tuple":
        return ["tuple", [expand(x) for x in t[1]]]
    return t


def nbits(t):
    t = expand(t)
    if t[0] == "bool":
        return 1
    if t[0] == "int":
        return t[1]
    if t[0] == "fixed":
        return t[1] + t[2]
    if t[0] == "char":
        return 8
    return sum(nbits(x) for x in t[1])


def ann(t):
    if t[0] == "bool":
        return "bool"
    if t[0] == "int":
        return f"Qint[{t[1]}]"
    if t[0] == "fixed":
        return f"Qfixed[{t[1]},{t[2]}]"
    if t[0] == "char":
        return "Qchar"
    if t[0] == "tuple":
        return "Tuple[" + ", ".join(ann(x) for x in t[1]) + "]"
    if t[0] == "list":
        return f"Qlist[{ann(t[1])}, {t[2]}]"
    if t[0] == "matrix":
        return f"Qmatrix[{ann(t[1])}, {t[2]}, {t[3]}]"
    raise ValueError(t)


def is_int(t):
    return t[0] == "int"


def is_tuple(t):
    return t[0] in ("tuple", "list", "matrix")


def elem_types(t):
    return expand(t)[1]


def decode_value(t, bits):
    """bits: list of 0/1 of length nbits(t) -> reference value."""
    t = expand(t)
    if t[0] == "bool":
        return bool(bits[0])
    if t[0] == "int":
        return refsem.RInt(sum(b << k for k, b in enumerate(bits)), t[1])
    if t[0] == "char":
        return chr(sum(b << k for k, b in enumerate(bits)))
    if t[0] == "fixed":
        i, f = t[1], t[2]
        ip = sum(b << k for k, b in enumerate(bits[:i]))
        fp = sum(b << (f - 1 - j) for j, b in enumerate(bits[i:]))
        return refsem.RFix((ip << f) | fp, i, f)
    out = []
    pos = 0
    for x in t[1]:
        n = nbits(x)
        out.append(decode_value(x, bits[pos : pos + n]))
        pos += n
    return tuple(out)


def plain_value(t, bits):
    """JSON/py-plain rendering of an argument value (ints, Fractions as str, chars)."""
    t = expand(t)
    if t[0] == "bool":
        return bool(bits[0])
    if t[0] == "int":
        return sum(b << k for k, b in enumerate(bits))
    if t[0] == "char":
        return chr(sum(b << k for k, b in enumerate(bits)))
    if t[0] == "fixed":
        i, f = t[1], t[2]
        ip = sum(b << k for k, b in enumerate(bits[:i]))
        fp = sum(b << (f - 1 - j) for j, b in enumerate(bits[i:]))
        return str(Fraction((ip << f) | fp, 1 << f))
    out = []
    pos = 0
    for x in t[1]:
        n = nbits(x)
        out.append(plain_value(x, bits[pos : pos + n]))
        pos += n
    return out


class RefTypeError(Exception):
    pass


def encode_expected(t, v):
    """reference value -> list of expected bits (0/1/None=undetermined) in the return type t."""
    t = expand(t)
    if t[0] == "bool":
        if not isinstance(v, bool):
            raise RefTypeError(f"expected bool got {v!r}")
        return [int(v)]
    if t[0] == "int":
        if isinstance(v, bool):
            raise RefTypeError("bool returned as int")
        r = refsem.RInt.of(v)
        lim = t[1] if r.k is None else min(r.k, t[1])
        return [(r.v >> k) & 1 if k < lim else None for k in range(t[1])]
    if t[0] == "char":
        if isinstance(v, refsem.RInt):
            # chr() is the identity on the bits; a narrower integer is zero-extended
            r = v
            lim = 8 if r.k is None else min(r.k, 8)
            return [(r.v >> k) & 1 if k < lim else None for k in range(8)]
        if not (isinstance(v, str) and len(v) == 1 and ord(v) < 256):
            raise RefTypeError(f"expected char got {v!r}")
        o = ord(v)
        return [(o >> k) & 1 for k in range(8)]
    if t[0] == "fixed":
        if not isinstance(v, refsem.RFix) or (v.i, v.f) != (t[1], t[2]):
            raise RefTypeError(f"expected fixed {t} got {v!r}")
        i, f = t[1], t[2]
        w = i + f
        lim = w if v.k is None else v.k
        # scaled integer bit j: j < f is fractional bit (position i + (f-1-j)), j >= f integer bit (j-f)
        out = [None] * w
        for j in range(w):
            bit = (v.n >> j) & 1 if j < lim else None
            pos = i + (f - 1 - j) if j < f else (j - f)
            out[pos] = bit
        return out
    if not isinstance(v, (tuple, list)) or len(v) != len(t[1]):
        raise RefTypeError(f"expected tuple of {len(t[1])} got {v!r}")
    out = []
    for x, e in zip(t[1], v):
        out.extend(encode_expected(x, e))
    return out


# -------------------------------------------------------- static typing + render


class GenTypeError(Exception):
    pass


def const_type(c):
    if isinstance(c, bool):
        return BOOL
    if isinstance(c, int):
        return ["int", refsem.const_width(c)]
    if isinstance(c, str):
        return CHAR
    if isinstance(c, list) and c[0] == "F":
        return ["fixed", c[2], c[3]]
    if isinstance(c, list) and c[0] == "I":
        return ["int", c[2]]
    raise GenTypeError(c)


def const_src(c, ref):
    if isinstance(c, bool):
        return "True" if c else "False"
    if isinstance(c, int):
        return str(c)
    if isinstance(c, str):
        return repr(c)
    if c[0] == "F":
        if ref:
            return f"_F({c[1]}, {c[2]}, {c[3]})"
        return f"Qfixed{c[2]}_{c[3]}({float(Fraction(c[1], 1 << c[3]))!r})"
    if c[0] == "I":
        return f"Qint{c[2]}({c[1]})"
    raise GenTypeError(c)


def join_types(a, b):
    """type of an if-expression / re-joined variable"""
    if a == b:
        return a
    if is_int(a) and is_int(b):
        return ["int", max(a[1], b[1])]
    raise GenTypeError(f"cannot join {a} {b}")


NOC = object()


def cval(e, env):  # noqa: C901
    """Compile-time constant value of a subtree under the library's constant
    folding (python semantics on plain constants), or NOC."""
    k = e[0]
    try:
        if k == "k":
            c = e[1]
            return c if isinstance(c, (bool, int, str)) else NOC
        if k == "v":
            return env.get("const:" + e[1], NOC)
        if k == "not":
            v = cval(e[1], env)
            return NOC if v is NOC else (not v)
        if k == "inv":
            v = cval(e[1], env)
            return NOC if v is NOC else (~v)
        if k in ("bin", "cmp"):
            l, r = cval(e[2], env), cval(e[3], env)
            if l is NOC or r is NOC:
                return NOC
            import operator as o

            fn = {"+": o.add, "-": o.sub, "*": o.mul, "&": o.and_, "|": o.or_, "^": o.xor, "==": o.eq, "!=": o.ne,
                  "<": o.lt, "<=": o.le, ">": o.gt, ">=": o.ge}[e[1]]
            return fn(l, r)
        if k == "sh":
            v = cval(e[2], env)
            return NOC if v is NOC else (v << e[3] if e[1] == "<<" else v >> e[3])
        if k == "pow":
            v = cval(e[1], env)
            return NOC if v is NOC else v ** e[2]
        if k == "mod":
            l, r = cval(e[1], env), cval(e[2], env)
            return NOC if l is NOC or r is NOC else l % r
        if k == "ife":
            c = cval(e[1], env)
            if c is NOC:
                return NOC
            return cval(e[2] if c else e[3], env)
        if k == "vidx":
            i = cval(e[2], env)
            if i is NOC or e[1][0] != "lst":
                return NOC
            vals = [cval(x, env) for x in e[1][1]]
            if any(v is NOC for v in vals):
                return NOC
            return vals[i]
        if k == "call" and e[1] in ("min", "max") and len(e[2]) >= 2:
            vals = [cval(x, env) for x in e[2]]
            if any(v is NOC for v in vals):
                return NOC
            return (min if e[1] == "min" else max)(vals)
    except (TypeError, ValueError, ZeroDivisionError, IndexError, OverflowError):
        raise GenTypeError("constant expression not evaluable")
    return NOC


def assigned_names(stmts):
    out = set()
    for s_ in stmts:
        if s_[0] in ("assign", "aug"):
            out.add(s_[1])
        elif s_[0] == "unpack":
            out.update(s_[1])
        elif s_[0] == "if":
            out |= assigned_names(s_[2] + s_[3])
        elif s_[0] == "for":
            out |= assigned_names(s_[3])
    return out


def names_read(x):
    out = set()
    if isinstance(x, list) and x:
        if x[0] == "v" and len(x) == 2 and isinstance(x[1], str):
            out.add(x[1])
        elif x[0] == "aug" and isinstance(x[1], str):
            out.add(x[1])
        for y in x:
            out |= names_read(y)
    return out


class Renderer:
    def __init__(self, ref):
        self.ref = ref
        self.else_reads_widened = False

    # ---- expressions: returns (src, type)
    def expr(self, e, env):  # noqa: C901
        src, t = self._expr(e, env)
        if e[0] not in ("k", "v", "tup", "lst"):
            cv = cval(e, env)
            if cv is not NOC:
                if isinstance(cv, int) and not isinstance(cv, bool) and cv < 0:
                    raise GenTypeError("negative constant")
                t = const_type(cv)
        return src, t

    def _expr(self, e, env):  # noqa: C901
        k = e[0]
        ref = self.ref
        if k == "v":
            if e[1] not in env:
                raise GenTypeError(f"unbound {e[1]}")
            return e[1], env[e[1]]
        if k == "k":
            return const_src(e[1], ref), const_type(e[1])
        if k == "not":
            s, t = self.expr(e[1], env)
            return f"(not {s})", BOOL
        if k == "bop":
            parts = [self.expr(x, env)[0] for x in e[2]]
            return "(" + f" {e[1]} ".join(parts) + ")", BOOL
        if k == "bin":
            ls, lt = self.expr(e[2], env)
            rs, rt = self.expr(e[3], env)
            op = e[1]
            if lt == BOOL and rt == BOOL:
                t = BOOL
            elif is_int(lt) and is_int(rt):
                t = ["int", refsem.mul_width(lt[1], rt[1])] if op == "*" else ["int", max(lt[1], rt[1])]
            elif lt[0] == "fixed" and rt[0] == "fixed" and op in "+-":
                t = lt
            elif lt[0] == "fixed" and is_int(rt) and op == "*":
                t = lt
            elif is_int(lt) and rt[0] == "fixed" and op == "*":
                t = rt
            else:
                t = lt  # outside the typed subset (only produced by the negative generator)
            return f"({ls} {op} {rs})", t
        if k == "sh":
            s, t = self.expr(e[2], env)
            return f"({s} {e[1]} {e[3]})", t
        if k == "pow":
            s, t = self.expr(e[1], env)
            c = e[2]
            rt = ["int", 2] if c == 0 else t
            for _ in range(max(0, c - 1)):
                rt = ["int", refsem.mul_width(rt[1], t[1])]
            return f"({s} ** {c})", rt
        if k == "mod":
            s, t = self.expr(e[1], env)
            ms, mt = self.expr(e[2], env)
            return f"({s} % {ms})", ["int", max(t[1], mt[1])]
        if k == "inv":
            s, t = self.expr(e[1], env)
            return f"(~{s})", t
        if k == "cmp":
            ls, lt = self.expr(e[2], env)
            rs, rt = self.expr(e[3], env)
            return f"({ls} {e[1]} {rs})", BOOL
        if k == "ife":
            cs, _ = self.expr(e[1], env)
            ts, tt = self.expr(e[2], env)
            fs, ft = self.expr(e[3], env)
            cv = cval(e[1], env)
            t = join_types(tt, ft) if cv is NOC else (tt if cv else ft)
            src = f"({ts} if {cs} else {fs})"
            if ref and is_int(t):
                src = f"_W({t[1]}, {src})"
            return src, t
        if k == "idx":
            s, t = self.expr(e[1], env)
            i = e[2]
            if is_int(t):
                return f"{s}[{i}]", BOOL
            if is_tuple(t):
                et = elem_types(t)[i]
                if ref and is_int(et):
                    return f"_W({et[1]}, {s}[{i}])", et
                return f"{s}[{i}]", et
            raise GenTypeError(f"idx on {t}")
        if k == "tup" or k == "lst":
            parts = [self.expr(x, env) for x in e[1]]
            srcs = [p[0] for p in parts]
            t = ["tuple", [p[1] for p in parts]]
            if k == "lst":
                return "[" + ", ".join(srcs) + "]", t
            return "(" + ", ".join(srcs) + ("," if len(srcs) == 1 else "") + ")", t
        if k == "vidx":
            ls, lt = self.expr(e[1], env)
            is_, it = self.expr(e[2], env)
            ets = elem_types(lt)
            t = ets[0]
            for x in ets[1:]:
                t = join_types(t, x)
            civ = cval(e[2], env)
            if civ is not NOC:
                if not (0 <= civ < len(ets)):
                    raise GenTypeError("constant index out of range")
                t = ets[civ]
            src = f"{ls}[{is_}]"
            if ref and is_int(t):
                src = f"_W({t[1]}, {src})"
            return src, t
        if k == "vidx2":
            ls, lt = self.expr(e[1], env)
            is_, it = self.expr(e[2], env)
            js, jt = self.expr(e[3], env)
            rows = elem_types(lt)
            t = elem_types(rows[0])[0]
            for r in rows:
                for x in elem_types(r):
                    t = join_types(t, x)
            src = f"{ls}[{is_}][{js}]"
            if ref and is_int(t):
                src = f"_W({t[1]}, {src})"
            return src, t
        if k == "call":
            fn = e[1]
            parts = [self.expr(x, env) for x in e[2]]
            srcs = [p[0] for p in parts]
            ts = [p[1] for p in parts]
            src = f"{fn}(" + ", ".join(srcs) + ")"
            if fn == "len":
                n = len(elem_types(ts[0]))
                return src, ["int", refsem.const_width(n)]
            if fn in ("min", "max", "sum"):
                its = elem_types(ts[0]) if len(ts) == 1 and is_tuple(ts[0]) else ts
                t = its[0]
                for x in its[1:]:
                    t = join_types(t, x)
                return src, t
            if fn in ("all", "any"):
                return src, BOOL
            if fn == "ord":
                return src, ["int", 8]
            if fn == "chr":
                return src, CHAR
            if fn == "int":
                t = ts[0]
                return src, (t if is_int(t) else ["int", t[1]])
            if fn == "float":
                t = ts[0]
                if t[0] == "fixed":
                    return src, t
                i, f = refsem.FIXED_FOR_INT.get(t[1], (t[1], 0))
                return src, ["fixed", i, f]
            # user function: type supplied by env entry "fn:<name>"
            if ("fn:" + fn) in env:
                rt = env["fn:" + fn]
                if ref:
                    # the callee's declared return type coerces (crops / zero-extends) its value
                    src = f"_R({expand(rt) if is_tuple(rt) else rt!r}, {src})"
                return src, rt
            raise GenTypeError(f"unknown function {fn}")
        raise GenTypeError(f"unknown expr {e}")

    # ---- statements
    def stmts(self, body, env, ind, out):  # noqa: C901
        pad = "    " * ind
        for s in body:
            k = s[0]
            if k == "assign":
                src, t = self.expr(s[2], env)
                if self.ref and is_int(t):
                    # a variable is a fixed-width value even when it was assigned a constant
                    src = f"_W({t[1]}, {src})"
                out.append(f"{pad}{s[1]} = {src}")
                env[s[1]] = t
            elif k == "aug":
                src, t = self.expr(["bin", s[2], ["v", s[1]], s[3]], env)
                es, _ = self.expr(s[3], env)
                out.append(f"{pad}{s[1]} {s[2]}= {es}")
                env[s[1]] = t
            elif k == "unpack":
                src, t = self.expr(s[2], env)
                ets = elem_types(t)
                if len(ets) != len(s[1]):
                    raise GenTypeError("unpack arity")
                out.append(f"{pad}{', '.join(s[1])} = {src}")
                for nm, et in zip(s[1], ets):
                    env[nm] = et
                    if self.ref and is_int(et):
                        out.append(f"{pad}{nm} = _W({et[1]}, {nm})")
            elif k == "return":
                src, t = self.expr(s[1], env)
                out.append(f"{pad}return {src}")
                env["__ret__"] = t
            elif k == "if":
                cs, _ = self.expr(s[1], env)
                out.append(f"{pad}if {cs}:")
                before = dict(env)
                e1 = dict(env)
                self.stmts(s[2], e1, ind + 1, out)
                e2 = dict(env)
                if s[3]:
                    out.append(f"{pad}else:")
                    self.stmts(s[3], e2, ind + 1, out)
                # known-finding probe: a variable widened by the then-branch and read by the else-branch
                if s[3]:
                    reads = names_read(s[3])
                    for nm in reads:
                        if nm in before and nm in e1 and is_int(before[nm]) and is_int(e1[nm]) and e1[nm][1] > before[nm][1]:
                            self.else_reads_widened = True
                for nm in sorted(set(e1) | set(e2)):
                    if nm.startswith(("const:", "fn:", "tconst:")) or nm == "__ret__":
                        continue
                    if nm in before:
                        t = join_types(join_types(before[nm], e1.get(nm, before[nm])), e2.get(nm, before[nm]))
                        env[nm] = t
                        if self.ref and is_int(t) and nm in assigned_names(s[2] + s[3]):
                            out.append(f"{pad}{nm} = _W({t[1]}, {nm})")
                    else:
                        raise GenTypeError(f"{nm} first assigned inside an if")
            elif k == "for":
                var, it, inner = s[1], s[2], s[3]
                consts = None
                if it[0] == "range":
                    vals = list(range(*it[1:]))
                    its = [(str(v), ["int", refsem.const_width(v)]) for v in vals]
                    consts = vals
                    head = f"range({', '.join(str(x) for x in it[1:])})"
                else:
                    isrc, itt = self.expr(it[1], env)
                    head = isrc
                    if it[1][0] in ("tup", "lst"):
                        its = [self.expr(x, env) for x in it[1][1]]
                        cvs = [cval(x, env) for x in it[1][1]]
                        if all(c is not NOC for c in cvs):
                            consts = cvs
                    else:
                        its = [(f"{isrc}[{j}]", et) for j, et in enumerate(elem_types(itt))]
                        if it[1][0] == "v" and ("tconst:" + it[1][1]) in env:
                            # iterating over a bound tuple parameter: the elements are compile-time constants
                            consts = list(env["tconst:" + it[1][1]])
                            its = [(const_src(c, self.ref), const_type(c)) for c in consts]
                if not self.ref:
                    out.append(f"{pad}for {var} in {head}:")
                    env_body = dict(env)
                    env_body[var] = its[0][1] if its else ["int", 2]
                    if consts:
                        env_body["const:" + var] = consts[0]
                    body_src = []
                    Renderer(False).stmts(inner, env_body, ind + 1, body_src)
                    out.extend(body_src)
                    for n_it, (vs, vt) in enumerate(its):
                        env[var] = vt
                        if consts:
                            env["const:" + var] = consts[n_it]
                        self.stmts(inner, env, ind + 1, [])
                else:
                    for n_it, (vs, vt) in enumerate(its):
                        out.append(f"{pad}{var} = {vs}")
                        env[var] = vt
                        if consts:
                            env["const:" + var] = consts[n_it]
                        self.stmts(inner, env, ind, out)
                    if its and is_int(env.get(var, BOOL)):
                        # after the loop the counter is an ordinary fixed-width variable
                        out.append(f"{pad}{var} = _W({env[var][1]}, {var})")
                env.pop("const:" + var, None)
            else:
                raise GenTypeError(f"unknown stmt {s}")


def render(prog, ref=False, extra_env=None):
    r = Renderer(ref)
    env = {a[0]: a[1] for a in prog["args"]}
    if extra_env:
        env.update(extra_env)
    if ref:
        lines = [f"def {prog['name']}({', '.join(a[0] for a in prog['args'])}):"]
    else:
        pset = set(prog.get("params", ()))
        args = ", ".join(f"{a[0]}: Parameter[{ann(a[1])}]" if a[0] in pset else f"{a[0]}: {ann(a[1])}" for a in prog["args"])
        lines = [f"def {prog['name']}({args}) -> {ann(prog['ret'])}:"]
    r.stmts(prog["body"], env, 1, lines)
    return "\n".join(lines) + "\n", env


def else_reads_widened_var(prog, extra_env=None):
    """True if some if-statement's else-branch reads an integer variable that the
    then-branch re-assigns with a wider type (known finding C01-K1)."""
    r = Renderer(False)
    env = {a[0]: a[1] for a in prog["args"]}
    if extra_env:
        env.update(extra_env)
    try:
        r.stmts(prog["body"], env, 1, [])
    except GenTypeError:
        return False
    return r.else_reads_widened


def render_lib(prog, extra_env=None):
    return render(prog, False, extra_env)[0]


def render_ref(prog, extra_env=None):
    return render(prog, True, extra_env)[0]


# ------------------------------------------------------------------ strategies


class Cfg:
    """generation knobs"""

    def __init__(self, **kw):
        self.int_widths = [2, 2, 3, 4, 4]
        self.max_in_bits = 8
        self.max_args = 3
        self.depth = 3
        self.use_int = True
        self.use_tuple = True
        self.use_char = True
        self.use_fixed = True
        self.use_stmts = True
        self.use_builtins = True
        self.use_vidx = True
        self.max_stmts = 4
        self.odd_names = 6  # percent chance per argument of an internal-looking name
        self.type_depth = 1  # nesting depth of generated tuple argument types
        self.ret_kinds = ("bool", "int", "tuple", "char", "fixed")
        self.__dict__.update(kw)


NAMES = ["a", "b", "c", "d", "e", "g"]
ODD_NAMES = ["anc_0", "anc_1", "TRUE", "FALSE", "x0", "x1", "q0", "q1", "ret", "_r", "_iftarg2", "_temptup"]
LOCALS = ["x", "y", "z", "u", "w"]
# legal local names that share a prefix with names the library generates (_ret, _ret.0, anc_0, q0 ...)
ODD_LOCALS = ["_retval", "_ret_tmp", "_ret0", "anc_2", "q2", "_re"]


def leaf_type(draw, cfg, budget):
    opts = ["bool", "bool"]
    if cfg.use_int and budget >= 2:
        opts += ["int", "int", "int"]
    if cfg.use_char and budget >= 8:
        opts += ["char"]
    if cfg.use_fixed and budget >= 3:
        opts += ["fixed"]
    k = draw(st.sampled_from(opts))
    if k == "bool":
        return BOOL
    if k == "int":
        ws = [w for w in cfg.int_widths if w <= budget]
        return ["int", draw(st.sampled_from(ws))]
    if k == "char":
        return CHAR
    cands = [(i, f) for (i, f) in QFIXED if i + f <= min(budget, 6)]
    i, f = draw(st.sampled_from(cands))
    return ["fixed", i, f]


def any_type(draw, cfg, budget, depth=1):
    if cfg.use_tuple and depth > 0 and budget >= 2 and draw(st.integers(0, 9)) < 3:
        kind = draw(st.sampled_from(["tuple", "tuple", "list", "matrix"]))
        if kind == "tuple":
            n = draw(st.integers(2, 3))
            elts = []
            rem = budget
            for i in range(n):
                if rem < 1:
                    break
                t = any_type(draw, cfg, max(1, rem - (n - 1 - i)), depth - 1)
                rem -= nbits(t)
                elts.append(t)
            if len(elts) >= 2:
                return ["tuple", elts]
            return elts[0]
        if kind == "list":
            n = draw(st.integers(2, 4))
            t = leaf_type(draw, cfg, max(1, budget // n))
            return ["list", t, n]
        n = draw(st.integers(2, 2))
        m = draw(st.integers(2, 2))
        t = leaf_type(draw, cfg, max(1, budget // (n * m)))
        if t[0] in ("char",):
            t = BOOL
        return ["matrix", t, n, m]
    return leaf_type(draw, cfg, budget)


class G:
    """expression generator bound to a draw function and an environment"""

    def __init__(self, draw, cfg, env):
        self.draw = draw
        self.cfg = cfg
        self.env = env  # name -> type (mutable)
        self.hidden = set()
        self.pyint = set()  # variables that may hold a plain python int (constants, loop counters)
        self.muls = 0
        self.fns = {}  # callable compiled functions: name -> (formal types, return type)
        self.ncalls = 0
        self.bool_pool = []  # compound sub-expressions generated so far (re-used to create shared sub-terms)
        self.int_pool = []
        self.share = 18  # percent chance of re-using a previous compound sub-expression

    def names_of(self, pred):
        return [n for n, t in self.env.items() if not n.startswith("fn:") and pred(t)]

    def pick(self, xs):
        return self.draw(st.sampled_from(xs))

    def chance(self, pct):
        return self.draw(st.integers(0, 99)) < pct

    # -- access paths yielding a given leaf kind from variables (incl. tuple elements)
    def paths(self, pred):
        out = []

        def walk(e, t, d):
            if pred(t):
                out.append(e)
            if is_tuple(t) and d < 3:
                for i, et in enumerate(elem_types(t)):
                    walk(["idx", e, i], et, d + 1)

        for n, t in self.env.items():
            if not n.startswith(("fn:", "const:", "tconst:")) and n not in self.hidden:
                walk(["v", n], t, 0)
        return out

    def call_args(self, formals):
        """arguments for a call: variables / tuple elements of exactly the formal type
        (bool formals may also take any boolean expression)"""
        args = []
        for ft in formals:
            fte = expand(ft) if is_tuple(ft) else ft
            ps = [p_ for p_ in self.paths(lambda t: (expand(t) if is_tuple(t) else t) == fte) if _root(p_) not in self.pyint]
            lit = self.literal_arg(ft) if is_tuple(fte) and (not ps or self.chance(25)) else None
            if fte == BOOL and (not ps or self.chance(25)):
                args.append(self.gen_bool(1))
            elif lit is not None:
                args.append(lit)
            elif ps:
                args.append(self.pick(ps))
            else:
                return None
        return args

    def literal_arg(self, ft):
        """a tuple / list LITERAL of exactly the formal's type, built from variables and elements: g((x, (y, z)))"""
        fte = expand(ft) if is_tuple(ft) else ft
        if is_tuple(fte):
            elts = []
            for et in fte[1]:
                e = self.literal_arg(et)
                if e is None:
                    return None
                elts.append(e)
            return ["tup", elts]  # (a python list would compare unequal to the tuples of the reference run)
        ps = [p_ for p_ in self.paths(lambda t: (expand(t) if is_tuple(t) else t) == fte) if _root(p_) not in self.pyint]
        if fte == BOOL and (not ps or self.chance(20)):
            return self.gen_bool(1)
        return self.pick(ps) if ps else None

    def gen_call(self, pred):
        """a call of a known function whose return type satisfies pred, or None"""
        cands = [n for n, (fts, rt) in self.fns.items() if pred(expand(rt) if is_tuple(rt) else rt)]
        if not cands:
            return None
        fn = self.pick(cands)
        args = self.call_args(self.fns[fn][0])
        if args is None:
            return None
        self.ncalls += 1
        return ["call", fn, args]

    def bool_leaf(self):
        ps = self.paths(lambda t: t == BOOL)
        ints = [p_ for p_ in self.paths(is_int) if _root(p_) not in self.pyint]
        opts = []
        if ps:
            opts += ["p"] * 5
        if ints:
            opts += ["bit"] * 2
        opts += ["k"]
        k = self.pick(opts)
        if k == "p":
            return self.pick(ps)
        if k == "bit":
            e = self.pick(ints)
            w = Renderer(False).expr(e, self.env)[1][1]
            return ["idx", e, self.draw(st.integers(0, w - 1))]
        return ["k", self.draw(st.booleans())]

    def small_int_leaf(self):
        ps = [p_ for p_ in self.paths(is_int) if _typeof(p_, self.env)[1] <= 4]
        return self.pick(ps) if ps else None

    def int_leaf(self, allow_const=True):
        ps = self.paths(is_int)
        if ps and (not allow_const or self.chance(75)):
            return self.pick(ps)
        return ["k", self.draw(st.sampled_from([0, 1, 1, 2, 2, 3, 3, 4, 5, 6, 7, 8, 10, 12, 14, 15, 16, 20]))]

    def _still_valid(self, e):
        """a pooled sub-expression can be re-used only while every variable it reads still exists with the same type"""
        try:
            for nm in names_read(e):
                if nm not in self.env:
                    return False
            Renderer(False).expr(e, self.env)
            return True
        except GenTypeError:
            return False

    def gen_bool(self, d):
        if d > 0 and self.bool_pool and self.chance(self.share):
            e = self.pick(self.bool_pool)
            if self._still_valid(e) and Renderer(False).expr(e, self.env)[1] == BOOL:
                return e
        e = self._gen_bool(d)
        if d > 0 and e[0] not in ("v", "k", "idx") and len(self.bool_pool) < 12:
            self.bool_pool.append(e)
        return e

    def _gen_bool(self, d):  # noqa: C901
        if d <= 0:
            return self.bool_leaf()
        cfg = self.cfg
        opts = ["leaf", "not", "and", "or", "xor", "bitand", "bitor", "eq", "ne", "ife"]
        if cfg.use_int and self.paths(is_int):
            opts += ["icmp"] * 4
        if cfg.use_char and self.paths(lambda t: t == CHAR):
            opts += ["ccmp", "ordcmp"]
        if cfg.use_fixed and self.paths(lambda t: t[0] == "fixed"):
            opts += ["fcmp"] * 2
        tup_bools = self.paths(lambda t: is_tuple(t) and all(x == BOOL for x in elem_types(t)))
        if cfg.use_builtins and tup_bools:
            opts += ["allany"]
        # list-constant variables are python lists: a list never equals a tuple in python, while the
        # library has a single tuple type (and a caller may pass either) -> keep them out of comparisons
        tups = [
            p_
            for p_ in self.paths(is_tuple)
            if all(not is_tuple(x) for x in elem_types(_typeof(p_, self.env))) and _root(p_) not in self.pyint
        ]
        if cfg.use_tuple and tups:
            opts += ["tcmp"]
        tup_bools_v = [p_ for p_ in tup_bools if p_[0] == "v"]
        if cfg.use_vidx and tup_bools_v and self.paths(is_int):
            opts += ["vidx"]
        if self.fns:
            opts += ["fcall"] * 4
        k = self.pick(opts)
        if k == "fcall":
            c = self.gen_call(lambda t: t == BOOL)
            if c is not None:
                return c
            c = self.gen_call(is_int)
            if c is not None:
                return ["cmp", self.pick(["==", "!=", "<", ">="]), c, self.int_leaf()]
            return self.bool_leaf()
        if k == "leaf":
            return self.bool_leaf()
        if k == "not":
            return ["not", self.gen_bool(d - 1)]
        if k in ("and", "or"):
            n = self.draw(st.sampled_from([2, 2, 2, 3, 4]))
            return ["bop", k, [self.gen_bool(d - 1) for _ in range(n)]]
        if k == "xor" and d >= 2 and self.chance(35):
            # xor of a term with a (negated) compound that contains the same term again: the shape
            # on which accumulator / sub-expression caches of a synthesiser go stale
            t = self.gen_bool(max(1, d - 2))
            inner = t
            for _ in range(self.draw(st.integers(1, 2))):
                other = self.gen_bool(max(0, d - 2))
                kind = self.pick(["and", "or", "^", "and"])
                pair = [inner, other] if self.chance(50) else [other, inner]
                inner = ["bin", "^", pair[0], pair[1]] if kind == "^" else ["bop", kind, pair]
            r = ["not", inner] if self.chance(60) else inner
            return ["bin", "^", t, r] if self.chance(70) else ["bin", "^", r, t]
        if k in ("xor", "bitand", "bitor"):
            op = {"xor": "^", "bitand": "&", "bitor": "|"}[k]
            return ["bin", op, self.gen_bool(d - 1), self.gen_bool(d - 1)]
        if k in ("eq", "ne"):
            return ["cmp", "==" if k == "eq" else "!=", self.gen_bool(d - 1), self.gen_bool(d - 1)]
        if k == "ife":
            return ["ife", self.gen_bool(d - 1), self.gen_bool(d - 1), self.gen_bool(d - 1)]
        if k == "icmp":
            op = self.pick(["==", "!=", "<", "<=", ">", ">="])
            l = self.gen_int(d - 1)
            r = self.gen_int(d - 1)
            if l[0] == "k" and r[0] == "k":
                l = self.int_leaf(allow_const=False)
            return ["cmp", op, l, r]
        if k == "ccmp":
            op = self.pick(["==", "!="])
            l = self.pick(self.paths(lambda t: t == CHAR))
            if self.chance(50):
                r = ["k", self.draw(st.sampled_from(["a", "b", "z", "A", "0", "~", " "]))]
            else:
                r = self.pick(self.paths(lambda t: t == CHAR))
            return ["cmp", op, l, r]
        if k == "ordcmp":
            # ord() of a char compared (== / !=, the only comparisons chars support) with a constant or another ord()
            l = ["call", "ord", [self.pick(self.paths(lambda t: t == CHAR))]]
            if self.chance(65):
                r = ["k", self.draw(st.sampled_from([0, 1, 3, 7, 32, 48, 65, 97, 122, 127, 200, 255]))]
            else:
                r = ["call", "ord", [self.pick(self.paths(lambda t: t == CHAR))]]
            pair = [l, r] if self.chance(70) else [r, l]
            return ["cmp", self.pick(["==", "!="]), pair[0], pair[1]]
        if k == "fcmp":
            l = self.gen_fixed(d - 1, None)
            lt = Renderer(False).expr(l, self.env)[1]
            r = self.gen_fixed(d - 1, lt)
            return ["cmp", self.pick(["==", "!=", "<", "<=", ">", ">="]), l, r]
        if k == "allany":
            return ["call", self.pick(["all", "any"]), [self.pick(tup_bools)]]
        if k == "tcmp":
            a = self.pick(tups)
            ta = Renderer(False).expr(a, self.env)[1]
            same = [p for p in tups if expand(Renderer(False).expr(p, self.env)[1]) == expand(ta)]
            b = self.pick(same)
            return ["cmp", self.pick(["==", "!="]), a, b]
        if k == "vidx":
            L = self.pick(tup_bools_v)
            n = len(elem_types(Renderer(False).expr(L, self.env)[1]))
            return ["vidx", L, self.index_expr(n)]
        raise AssertionError(k)

    def index_expr(self, n):
        """an int expression usable as a variable subscript for a container of n elements (a plain name)"""
        cands = [p for p in self.paths(is_int) if p[0] == "v" and p[1] not in self.pyint]
        return self.pick(cands) if cands else ["k", 0]

    def gen_int(self, d):
        if d > 0 and self.int_pool and self.chance(self.share):
            e = self.pick(self.int_pool)
            if self._still_valid(e) and is_int(Renderer(False).expr(e, self.env)[1]):
                return e
        e = self._gen_int(d)
        if d > 0 and e[0] not in ("v", "k", "idx") and len(self.int_pool) < 12:
            self.int_pool.append(e)
        return e

    def _gen_int(self, d):  # noqa: C901
        if d <= 0 or (not self.paths(is_int) and not self.fns):
            return self.int_leaf()
        cfg = self.cfg
        opts = ["leaf", "add", "add", "sub", "sub", "mul", "band", "bor", "bxor", "shl", "shr", "inv", "ife", "mod"]
        if cfg.use_builtins:
            tint = self.paths(lambda t: is_tuple(t) and all(is_int(x) for x in elem_types(t)))
            if tint:
                opts += ["minmax_t", "sum_t", "len"]
            opts += ["minmax", "pow"]
            if self.paths(lambda t: t[0] == "fixed" and t[1] >= 2):
                opts += ["int_f"]
        if cfg.use_vidx and self.paths(lambda t: is_int(t)) and self.chance(15):
            opts += ["vidx_const"]
            if [p_ for p_ in self.paths(lambda t: is_tuple(t) and all(is_int(x) for x in elem_types(t))) if p_[0] == "v"]:
                opts += ["vidx"]
        if self.fns:
            opts += ["fcall"] * 4
        k = self.pick(opts)
        if k == "fcall":
            c = self.gen_call(is_int)
            return c if c is not None else self.int_leaf()
        if k == "leaf":
            return self.int_leaf()
        if k == "mul":
            if self.muls >= 2:
                k = "add"
            else:
                self.muls += 1
                l = self.small_int_leaf()
                r = self.small_int_leaf() if self.chance(60) else ["k", self.pick([0, 1, 2, 3, 4, 5, 6, 7, 10, 12, 14])]
                if l is None:
                    return self.int_leaf()
                if self.chance(50):
                    l, r = r, l
                return ["bin", "*", l, r]
        if k in ("add", "sub", "mul", "band", "bor", "bxor"):
            op = {"add": "+", "sub": "-", "mul": "*", "band": "&", "bor": "|", "bxor": "^"}[k]
            l = self.gen_int(d - 1)
            r = self.gen_int(d - 1)
            if l[0] == "k" and r[0] == "k":
                l = self.int_leaf(allow_const=False)
            if self.chance(10):
                r = l  # repeated operand
            return ["bin", op, l, r]
        if k in ("shl", "shr"):
            e = self.gen_int(d - 1)
            if e[0] == "k":
                e = self.int_leaf(allow_const=False)
            return ["sh", "<<" if k == "shl" else ">>", e, self.draw(st.integers(0, 3))]
        if k == "inv":
            e = self.gen_int(d - 1)
            if e[0] == "k":
                e = self.int_leaf(allow_const=False)
            return ["inv", e]
        if k == "ife":
            return ["ife", self.gen_bool(d - 1), self.gen_int(d - 1), self.gen_int(d - 1)]
        if k == "mod":
            e = self.gen_int(d - 1)
            if e[0] == "k":
                e = self.int_leaf(allow_const=False)
            return ["mod", e, ["k", self.pick([1, 2, 2, 4, 4, 8])]]
        if k == "pow":
            e = self.small_int_leaf()
            if self.muls >= 2 or e is None:
                return self.int_leaf()
            self.muls += 2
            return ["pow", e, self.pick([0, 1, 2, 2])]
        if k == "minmax":
            n = self.pick([2, 2, 3])
            return ["call", self.pick(["min", "max"]), [self.gen_int(d - 1) for _ in range(n)]]
        if k == "minmax_t":
            return ["call", self.pick(["min", "max"]), [self.pick(tint)]]
        if k == "sum_t":
            return ["call", "sum", [self.pick(tint)]]
        if k == "len":
            return ["call", "len", [self.pick(self.paths(is_tuple))]]
        if k == "int_f":
            return ["call", "int", [self.pick(self.paths(lambda t: t[0] == "fixed" and t[1] >= 2))]]
        if k == "vidx_const":
            n = self.pick([2, 3, 4])
            vals = [["k", self.draw(st.integers(0, 7))] for _ in range(n)]
            return ["vidx", ["lst", vals], self.index_expr(n)]
        if k == "vidx":
            L = self.pick([p_ for p_ in self.paths(lambda t: is_tuple(t) and all(is_int(x) for x in elem_types(t))) if p_[0] == "v"])
            n = len(elem_types(Renderer(False).expr(L, self.env)[1]))
            return ["vidx", L, self.index_expr(n)]
        raise AssertionError(k)

    def fixed_const(self, i, f):
        n = self.draw(st.integers(0, (1 << (i + f)) - 1))
        return ["k", ["F", n, i, f]]

    def gen_fixed(self, d, t):
        ps = self.paths(lambda x: x[0] == "fixed" and (t is None or x == t))
        if t is None:
            e = self.pick(self.paths(lambda x: x[0] == "fixed"))
            return e
        if d <= 0 or not ps:
            if ps and self.chance(70):
                return self.pick(ps)
            return self.fixed_const(t[1], t[2])
        opts = ["leaf", "add", "sub", "ife", "mulc"]
        wi = [w for w, (i_, f_) in refsem.FIXED_FOR_INT.items() if [i_, f_] == [t[1], t[2]]]
        ints_w = [p_ for p_ in self.paths(is_int) if wi and _typeof(p_, self.env)[1] == wi[0] and _root(p_) not in self.pyint]
        if ints_w:
            opts += ["float_i"] * 2
        k = self.pick(opts)
        if k == "float_i":
            return ["call", "float", [self.pick(ints_w)]]
        if k == "leaf":
            return self.pick(ps)
        if k in ("add", "sub"):
            return ["bin", "+" if k == "add" else "-", self.gen_fixed(d - 1, t), self.gen_fixed(d - 1, t)]
        if k == "ife":
            return ["ife", self.gen_bool(d - 1), self.gen_fixed(d - 1, t), self.gen_fixed(d - 1, t)]
        return ["bin", "*", self.gen_fixed(d - 1, t), ["k", self.pick([0, 1, 2, 3])]]

    def gen_char(self, d):
        ps = self.paths(lambda t: t == CHAR)
        narrow = [p_ for p_ in self.paths(is_int) if _typeof(p_, self.env)[1] < 8 and _root(p_) not in self.pyint]
        if narrow and self.chance(25):
            return ["call", "chr", [self.pick(narrow)]]
        if ps and self.chance(70):
            return self.pick(ps)
        if d > 0 and ps and self.chance(50):
            return ["ife", self.gen_bool(d - 1), self.gen_char(d - 1), self.gen_char(d - 1)]
        return ["k", self.draw(st.sampled_from(["a", "b", "z", "A", "0", "~", " "]))]

    def gen(self, t, d):
        """expression whose static type is *returnable* as t"""
        t0 = expand(t) if is_tuple(t) else t
        if t0 == BOOL:
            return self.gen_bool(d)
        if is_int(t0):
            return self.gen_int(d)
        if t0 == CHAR:
            return self.gen_char(d)
        if t0[0] == "fixed":
            return self.gen_fixed(d, t0)
        # tuple: a call returning it, a literal of element expressions, or a variable of exactly that type
        if self.fns and self.chance(50):
            c = self.gen_call(lambda t: t == t0)
            if c is not None:
                return c
        same = [p for p in self.paths(is_tuple) if expand(Renderer(False).expr(p, self.env)[1]) == t0]
        if same and self.chance(35):
            return self.pick(same)
        return ["tup", [self.gen_elem(x, d - 1) for x in t0[1]]]

    def gen_elem(self, t, d):
        """element of a returned tuple: must have exactly type t (no implicit coercion inside tuples)"""
        if is_int(t):
            ps = self.paths(lambda x: x == t)
            if ps and self.chance(60):
                return self.pick(ps)
            # same-width arithmetic keeps the type
            if ps and d > 0:
                op = self.pick(["+", "-", "&", "|", "^"])
                return ["bin", op, self.pick(ps), self.pick(ps)]
            return ["k", ["I", self.draw(st.integers(0, (1 << t[1]) - 1)), t[1]]]
        if t[0] == "fixed":
            ps = self.paths(lambda x: x == t)
            if ps:
                return self.pick(ps)
            return self.fixed_const(t[1], t[2])
        return self.gen(t, d)


def _root(p_):
    while p_[0] == "idx":
        p_ = p_[1]
    return p_[1] if p_[0] == "v" else None


def _typeof(e, env):
    return Renderer(False).expr(e, env)[1]


@st.composite
def program(draw, cfg=None, ret=None, name="f", args=None, fns=None, params=()):  # noqa: C901
    cfg = cfg or Cfg()
    if args is None:
        nargs = draw(st.integers(1, cfg.max_args))
        args = []
        rem = cfg.max_in_bits
        for i in range(nargs):
            if rem < 1:
                break
            t = any_type(draw, cfg, max(1, rem - (nargs - 1 - i)), depth=getattr(cfg, "type_depth", 1))
            rem -= nbits(t)
            nm = NAMES[i]
            if cfg.odd_names and draw(st.integers(0, 99)) < cfg.odd_names:
                # legal python identifiers that coincide with names the library uses internally
                cands = [x for x in ODD_NAMES if x not in [a_[0] for a_ in args]]
                nm = draw(st.sampled_from(cands))
            args.append([nm, t])
    env = {a[0]: a[1] for a in args}
    g = G(draw, cfg, env)
    for fn_name, (fts, rt) in (fns or {}).items():
        g.fns[fn_name] = (fts, rt)
        env["fn:" + fn_name] = rt
    g.pyint.update(params)
    protected = set(params)
    d = cfg.depth
    loopvars = set()

    local_names = list(LOCALS)
    if cfg.odd_names and draw(st.integers(0, 99)) < 2 * cfg.odd_names:
        local_names = [draw(st.sampled_from(ODD_LOCALS))] + local_names[:-1]

    def fresh_local():
        for nm in local_names:
            if nm not in env:
                return nm
        return None

    def scalars():
        return [
            n
            for n, t in env.items()
            if not n.startswith(("fn:", "const:", "tconst:")) and n not in loopvars and n not in protected and (t == BOOL or is_int(t))
        ]

    def multi(depth):
        """tuple-literal multi-assignment to existing scalars whose right-hand sides read the targets
        (a, b = b, a  /  a, b = b, a + b): python evaluates the whole right-hand side first"""
        sc = scalars()
        if len(sc) < 2:
            return None
        n1 = g.pick(sc)
        same = [x for x in sc if x != n1 and (env[x] == BOOL) == (env[n1] == BOOL)]
        if not same:
            return None
        n2 = g.pick(same)
        isb = env[n1] == BOOL

        def rhs(prefer):
            if g.chance(25):
                return ["v", prefer]
            e = g.gen_bool(max(0, depth - 1)) if isb else g.gen_int(max(0, depth - 1))
            if cval(e, env) is not NOC:
                return ["v", prefer]
            if isb:
                return ["bin", g.pick(["^", "&", "|"]), ["v", prefer], e] if g.chance(50) else e
            return ["bin", g.pick(["+", "^", "|", "&"]), ["v", prefer], e] if g.chance(50) else e

        e1, e2 = rhs(n2), rhs(n1)
        if g.chance(50):
            # both right-hand sides are expressions (no bare target) and the second reads the first target
            ops_ = ["^", "&", "|"] if isb else ["+", "^", "|", "&"]
            e1 = ["bin", g.pick(ops_), ["v", n1], ["v", n2]]
            other = g.gen_bool(0) if isb else g.gen_int(0)
            if cval(other, env) is not NOC:
                other = ["v", n2]
            e2 = ["bin", g.pick(ops_), ["v", n1], other]
        t1, t2 = _typeof(e1, env), _typeof(e2, env)
        env[n1], env[n2] = t1, t2
        g.pyint.discard(n1)
        g.pyint.discard(n2)
        return ["unpack", [n1, n2], ["tup", [e1, e2]]]

    def simple(depth, target=None, allow_multi=True):
        """assignment / aug-assignment to an existing scalar variable"""
        sc = scalars()
        if not sc:
            return None
        if allow_multi and target is None and cfg.use_tuple and len(sc) >= 2 and g.chance(20):
            m_ = multi(depth)
            if m_:
                return m_
        nm = target if target in sc else g.pick(sc)
        t = env[nm]
        if g.chance(50):
            e = g.gen_bool(depth) if t == BOOL else g.gen_int(depth)
            st_ = ["assign", nm, e]
            nt = _typeof(e, env)
            if cval(e, env) is not NOC:
                g.pyint.add(nm)
            else:
                g.pyint.discard(nm)
        else:
            if t == BOOL:
                op = g.pick(["^", "&", "|"])
                e = g.gen_bool(max(0, depth - 1))
            else:
                op = g.pick(["+", "+", "-", "*", "&", "|", "^"])
                if op == "*":
                    if g.muls >= 2 or t[1] > 4:
                        op = "+"
                    else:
                        g.muls += 1
                e = (g.small_int_leaf() or ["k", 3]) if op == "*" else g.gen_int(max(0, depth - 1))
            st_ = ["aug", nm, op, e]
            nt = _typeof(["bin", op, ["v", nm], e], env)
        env[nm] = nt
        return st_

    def branch(n, lead=None):
        out = []
        if lead is not None:
            # the branch first re-assigns the variable the if tests, then goes on
            s_ = simple(max(1, d - 1), target=lead)
            if s_:
                out.append(s_)
            n = max(n, 2)
        for _ in range(n - len(out)):
            # (a multi-assignment goes through the library's _temptup, and a variable first assigned inside a
            # branch is rejected by the library: nothing to judge there)
            s_ = simple(max(1, d - 1), allow_multi=False)
            if s_:
                out.append(s_)
        return out

    def gen_if(allow_elif=True):
        if not scalars():
            return None
        c = g.gen_bool(max(1, d - 1))
        lead = None
        bare = [n_ for n_ in scalars() if env[n_] == BOOL and n_ not in g.pyint]
        if bare and g.chance(20):
            # the test is a plain variable, re-assigned by a branch
            lead = g.pick(bare)
            c = ["v", lead]
        if cval(c, env) is not NOC:
            return None
        before = dict(env)
        b1 = branch(draw(st.integers(1, 2)), lead if lead and g.chance(70) else None)
        e1 = dict(env)
        env.clear()
        env.update(before)
        b2 = []
        r = draw(st.integers(0, 9))
        if r < 4:
            b2 = branch(draw(st.integers(1, 2)), lead if lead and g.chance(40) else None)
        elif r < 6 and allow_elif:
            inner = gen_if(False)
            b2 = [inner] if inner else []
        e2 = dict(env)
        env.clear()
        env.update(before)
        for nm in list(before):
            if nm.startswith(("fn:", "const:")):
                continue
            env[nm] = join_types(join_types(before[nm], e1.get(nm, before[nm])), e2.get(nm, before[nm]))
        if not b1:
            return None
        return ["if", c, b1, b2]

    def gen_for():
        var = "i" if "i" not in env else ("j" if "j" not in env else None)
        if var is None or not scalars():
            return None
        which = g.pick(["range", "range", "over_arg", "over_lit"])
        homog = [
            n
            for n, t in env.items()
            if not n.startswith(("fn:", "const:"))
            and is_tuple(t)
            and all(x == elem_types(t)[0] for x in elem_types(t))
            and (elem_types(t)[0] == BOOL or is_int(elem_types(t)[0]))
        ]
        consts = None
        if which == "over_arg" and homog:
            src = g.pick(homog)
            it = ["over", ["v", src]]
            vts = elem_types(env[src])
        elif which == "over_lit" and cfg.use_int:
            vals = [draw(st.integers(0, 3)) for _ in range(draw(st.integers(1, 3)))]
            it = ["over", [g.pick(["lst", "tup"]), [["k", v] for v in vals]]]
            if len(vals) == 1 and it[1][0] == "tup":
                it[1][0] = "lst"
            vts = [["int", refsem.const_width(v)] for v in vals]
            consts = vals
        else:
            n = draw(st.integers(1, 3))
            it = ["range", n]
            vts = [["int", refsem.const_width(v)] for v in range(n)]
            consts = list(range(n))
        snapshot = dict(env)
        env[var] = vts[0]
        if consts:
            env["const:" + var] = consts[0]
        loopvars.add(var)
        g.pyint.add(var)
        inner = []
        for _ in range(draw(st.integers(1, 2))):
            if g.chance(20):
                s_ = gen_if(False)
            else:
                s_ = simple(max(1, d - 1))
            if s_:
                inner.append(s_)
        env.clear()
        env.update(snapshot)
        if not inner:
            loopvars.discard(var)
            return None
        stmt = ["for", var, it, inner]
        try:
            Renderer(False).stmts([stmt], env, 0, [])
        except GenTypeError:
            env.clear()
            env.update(snapshot)
            loopvars.discard(var)
            return None
        return stmt

    def gen_stmt():
        kinds = ["new", "new", "simple", "simple"]
        if cfg.use_tuple:
            kinds += ["unpack"]
        kinds += ["if", "if", "for"]
        if cfg.use_vidx and cfg.use_int:
            kinds += ["lconst"]
        k = g.pick(kinds)
        if k == "lconst":
            nm = fresh_local()
            if nm is None:
                return None
            n = g.pick([2, 3, 4, 4])
            vals = [["k", draw(st.integers(0, 7))] for _ in range(n)]
            env[nm] = ["tuple", [const_type(v[1]) for v in vals]]
            g.pyint.add(nm)
            return ["assign", nm, ["lst", vals]]
        if k == "new":
            nm = fresh_local()
            if nm is None:
                return simple(max(1, d - 1))
            if cfg.use_int and g.chance(50):
                e = g.gen_int(max(1, d - 1))
            else:
                e = g.gen_bool(max(1, d - 1))
            env[nm] = _typeof(e, env)
            if cval(e, env) is not NOC:
                g.pyint.add(nm)
            return ["assign", nm, e]
        if k == "simple":
            return simple(max(1, d - 1))
        if k == "unpack":
            tups = [n for n, t in env.items() if not n.startswith(("fn:", "const:")) and is_tuple(t)]
            free = [nm for nm in local_names if nm not in env]
            if tups:
                src = g.pick(tups)
                ets = elem_types(env[src])
                if len(free) >= len(ets):
                    names = free[: len(ets)]
                    for nm, et in zip(names, ets):
                        env[nm] = et
                    return ["unpack", names, ["v", src]]
            return simple(max(1, d - 1))
        if k == "if":
            return gen_if()
        return gen_for()

    body = []
    if cfg.use_stmts:
        for _ in range(draw(st.integers(0, cfg.max_stmts))):
            try:
                s_ = gen_stmt()
            except GenTypeError:
                s_ = None
            if s_:
                body.append(s_)

    # return
    if ret is None:
        kind = g.pick(list(cfg.ret_kinds))
        if kind == "int" and cfg.use_int:
            ret = ["int", g.pick([2, 4, 4, 3, 6, 8])]
        elif kind == "char" and cfg.use_char and (g.paths(lambda t: t == CHAR) or g.paths(is_int)):
            ret = CHAR
        elif kind == "fixed" and cfg.use_fixed and g.paths(lambda t: t[0] == "fixed"):
            ret = g.pick([_typeof(p_, env) for p_ in g.paths(lambda t: t[0] == "fixed")])
        elif kind == "tuple" and cfg.use_tuple:
            n = draw(st.integers(2, 3))
            elts = []
            for _ in range(n):
                opts = [BOOL]
                if cfg.use_int:
                    opts += [["int", 2], ["int", 4]]
                    opts += [t for nm, t in env.items() if not nm.startswith(("fn:", "const:")) and is_int(t)]
                elts.append(g.pick(opts))
            ret = ["tuple", elts]
        else:
            ret = BOOL
    e = g.gen(ret, d)
    if g.fns and g.ncalls == 0:
        # make sure a caller really calls
        c = g.gen_call(lambda t: True)
        if c is not None:
            rt = g.fns[c[1]][1]
            rte = expand(rt) if is_tuple(rt) else rt
            if rte == BOOL and ret == BOOL:
                e = ["bin", g.pick(["^", "&", "|"]), c, e]
            elif rte == BOOL and is_int(ret):
                e = ["ife", c, e, g.int_leaf()]
            elif is_int(rte) and ret == BOOL:
                e = ["bin", "^", ["cmp", g.pick(["==", "<", ">="]), c, g.int_leaf()], e]
            elif is_int(rte) and is_int(ret):
                e = ["bin", g.pick(["+", "-", "^", "&"]), c, e]
            else:
                ret = rt
                e = c
    body.append(["return", e])
    return {"name": name, "args": args, "ret": ret, "body": body, "ncalls": g.ncalls}


# ---------------------------------------------------------------- features


def features(prog):
    feats = set()

    def walk(x):
        if isinstance(x, list) and x:
            if isinstance(x[0], str):
                k = x[0]
                if k in ("bin", "sh", "cmp", "bop"):
                    feats.add(f"{k}:{x[1]}")
                elif k == "call":
                    feats.add("call:" + x[1])
                elif k in ("not", "ife", "idx", "inv", "mod", "pow", "vidx", "vidx2", "tup", "lst", "assign", "aug", "unpack", "if", "for"):
                    feats.add(k)
                    if k == "unpack" and x[2][0] == "tup":
                        feats.add("multi-assign")
            for y in x:
                walk(y)

    walk(prog["body"])
    for a in prog["args"]:
        feats.add("argtype:" + a[1][0])
    feats.add("ret:" + prog["ret"][0])
    return sorted(feats)


def count_ops(prog):
    n = 0

    def walk(x):
        nonlocal n
        if isinstance(x, list) and x:
            if isinstance(x[0], str) and x[0] in ("bin", "sh", "cmp", "bop", "not", "ife", "inv", "mod", "pow", "call", "vidx"):
                n += 1
            for y in x:
                walk(y)

    walk(prog["body"])
    return n
