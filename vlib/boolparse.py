"""Reader for sympy's str() printing of boolean expressions:  ~ & ^ |, parentheses,
True/False, call forms ITE(..), Implies(..), Xor(..), And(..), Or(..), Not(..), Equivalent(..),
names that may contain dots and digits (a.0, _ret.1.0).

Result: nested tuples  ("s", name) ("c", bool) ("not", e) ("and", [..]) ("or", [..]) ("xor", [..])
("ite", c, t, f) ("imp", a, b) ("eqv", [..])
Precedence (sympy / python bitwise): ~  >  &  >  ^  >  |
"""

import re

TOKEN = re.compile(r"\s*(?:(?P<name>[A-Za-z_][A-Za-z0-9_.]*)|(?P<op>[~&|^(),]))")


class ParseError(Exception):
    pass


def tokenize(s):
    pos = 0
    out = []
    s = s.rstrip()
    while pos < len(s):
        m = TOKEN.match(s, pos)
        if not m:
            raise ParseError(f"bad character at {pos}: {s[pos:pos+10]!r}")
        pos = m.end()
        if m.group("name"):
            out.append(("name", m.group("name")))
        else:
            out.append(("op", m.group("op")))
    return out


CALLS = {"ITE", "Implies", "Xor", "And", "Or", "Not", "Equivalent", "Nand", "Nor", "Xnor"}


class P:
    def __init__(self, toks):
        self.t = toks
        self.i = 0

    def peek(self):
        return self.t[self.i] if self.i < len(self.t) else (None, None)

    def eat(self, kind=None, val=None):
        k, v = self.peek()
        if k is None or (kind and k != kind) or (val and v != val):
            raise ParseError(f"expected {kind} {val} at token {self.i}, got {k} {v}")
        self.i += 1
        return v

    def parse_or(self):
        parts = [self.parse_xor()]
        while self.peek() == ("op", "|"):
            self.eat()
            parts.append(self.parse_xor())
        return parts[0] if len(parts) == 1 else ("or", parts)

    def parse_xor(self):
        parts = [self.parse_and()]
        while self.peek() == ("op", "^"):
            self.eat()
            parts.append(self.parse_and())
        return parts[0] if len(parts) == 1 else ("xor", parts)

    def parse_and(self):
        parts = [self.parse_not()]
        while self.peek() == ("op", "&"):
            self.eat()
            parts.append(self.parse_not())
        return parts[0] if len(parts) == 1 else ("and", parts)

    def parse_not(self):
        if self.peek() == ("op", "~"):
            self.eat()
            return ("not", self.parse_not())
        return self.parse_atom()

    def parse_atom(self):
        k, v = self.peek()
        if k == "op" and v == "(":
            self.eat()
            e = self.parse_or()
            self.eat("op", ")")
            return e
        if k == "name":
            self.eat()
            if v == "True":
                return ("c", True)
            if v == "False":
                return ("c", False)
            if v in CALLS and self.peek() == ("op", "("):
                self.eat()
                args = [self.parse_or()]
                while self.peek() == ("op", ","):
                    self.eat()
                    args.append(self.parse_or())
                self.eat("op", ")")
                if v == "ITE":
                    if len(args) != 3:
                        raise ParseError("ITE arity")
                    return ("ite", args[0], args[1], args[2])
                if v == "Implies":
                    return ("imp", args[0], args[1])
                if v == "Not":
                    return ("not", args[0])
                if v == "Equivalent":
                    return ("eqv", args)
                if v in ("Nand", "Nor", "Xnor"):
                    inner = {"Nand": "and", "Nor": "or", "Xnor": "xor"}[v]
                    return ("not", (inner, args))
                return ({"Xor": "xor", "And": "and", "Or": "or"}[v], args)
            return ("s", v)
        raise ParseError(f"unexpected token {k} {v} at {self.i}")


def parse(s):
    p = P(tokenize(s))
    e = p.parse_or()
    if p.i != len(p.t):
        raise ParseError(f"trailing tokens from {p.i}: {p.t[p.i:p.i+4]}")
    return e


def names(e):
    k = e[0]
    if k == "s":
        return {e[1]}
    if k == "c":
        return set()
    if k == "not":
        return names(e[1])
    if k in ("and", "or", "xor", "eqv"):
        out = set()
        for x in e[1]:
            out |= names(x)
        return out
    if k == "ite":
        return names(e[1]) | names(e[2]) | names(e[3])
    if k == "imp":
        return names(e[1]) | names(e[2])
    raise ValueError(e)


def ev(e, env, mask):
    k = e[0]
    if k == "s":
        return env[e[1]]
    if k == "c":
        return mask if e[1] else 0
    if k == "not":
        return mask ^ ev(e[1], env, mask)
    if k == "and":
        r = mask
        for x in e[1]:
            r &= ev(x, env, mask)
        return r
    if k == "or":
        r = 0
        for x in e[1]:
            r |= ev(x, env, mask)
        return r
    if k == "xor":
        r = 0
        for x in e[1]:
            r ^= ev(x, env, mask)
        return r
    if k == "ite":
        c = ev(e[1], env, mask)
        return (c & ev(e[2], env, mask)) | ((mask ^ c) & ev(e[3], env, mask))
    if k == "imp":
        return (mask ^ ev(e[1], env, mask)) | ev(e[2], env, mask)
    if k == "eqv":
        cols = [ev(x, env, mask) for x in e[1]]
        r = mask
        for c in cols[1:]:
            r &= mask ^ (cols[0] ^ c)
        return r
    raise ValueError(e)


def is_literal(e):
    return e[0] == "s" or (e[0] == "not" and e[1][0] == "s")


def is_cnf(e):
    def clause(c):
        return is_literal(c) or (c[0] == "or" and all(is_literal(x) for x in c[1]))

    return e[0] == "c" or clause(e) or (e[0] == "and" and all(clause(x) for x in e[1]))


def is_dnf(e):
    def term(c):
        return is_literal(c) or (c[0] == "and" and all(is_literal(x) for x in c[1]))

    return e[0] == "c" or term(e) or (e[0] == "or" and all(term(x) for x in e[1]))


def is_nnf(e):
    if e[0] == "c" or is_literal(e):
        return True
    if e[0] in ("and", "or"):
        return all(is_nnf(x) for x in e[1])
    return False


def is_anf(e):
    def mono(m):
        return m[0] == "s" or (m[0] == "c" and m[1] is True) or (m[0] == "and" and all(x[0] == "s" for x in m[1]))

    if e[0] == "c":
        return True
    return mono(e) or (e[0] == "xor" and all(mono(x) for x in e[1]))
