"""Run a function in a forked child of the current process and return its JSON-able result.

The child starts from the parent's state (imported modules, class attributes) and whatever it changes
dies with it: a case that exercises the library in a child cannot influence, or be influenced by, other
cases judged later in the same worker (order-of-first-use effects are then a function of the case only)."""

import json
import os
import select
import signal
import time


class ForkTimeout(Exception):
    pass


def run_in_fork(fn, arg, timeout=60):
    r, w = os.pipe()
    pid = os.fork()
    if pid == 0:
        rc = 0
        try:
            os.close(r)
            signal.setitimer(signal.ITIMER_REAL, 0)
            try:
                out = {"ok": fn(arg)}
            except BaseException as e:  # noqa: BLE001
                import traceback

                out = {"error": repr(e), "trace": traceback.format_exc()[-3000:]}
            data = json.dumps(out, default=str).encode()
            off = 0
            while off < len(data):
                off += os.write(w, data[off : off + 65536])
            os.close(w)
        except BaseException:  # noqa: BLE001
            rc = 3
        finally:
            os._exit(rc)
    os.close(w)
    chunks = []
    deadline = time.time() + timeout
    try:
        while True:
            left = deadline - time.time()
            if left <= 0:
                raise ForkTimeout()
            rd, _, _ = select.select([r], [], [], min(left, 1.0))
            if rd:
                b = os.read(r, 1 << 16)
                if not b:
                    break
                chunks.append(b)
    except BaseException:
        try:
            os.kill(pid, signal.SIGKILL)
        except OSError:
            pass
        raise
    finally:
        os.close(r)
        try:
            os.waitpid(pid, 0)
        except OSError:
            pass
    raw = b"".join(chunks)
    if not raw:
        raise RuntimeError("forked case produced no result")
    out = json.loads(raw)
    if "error" in out:
        raise RuntimeError("forked case raised: " + out["error"] + "\n" + out.get("trace", ""))
    return out["ok"]
