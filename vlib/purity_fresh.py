"""python -m vlib.purity_fresh < recipe.json : evaluate one recipe alone, print the fingerprint of its top node"""
import json
import sys


def main():
    recipe = json.loads(sys.stdin.read())
    import qlasskit  # noqa: F401

    from vlib import purity

    ev = purity.Evaluator()
    try:
        obj = ev.ev(recipe)
        out = purity.fingerprint(obj)
    except purity._Propagate as e:
        out = "raised " + str(e)
    print(json.dumps(json.loads(json.dumps(out, default=str))))


if __name__ == "__main__":
    main()
