"""Independent simulators for qlasskit circuits.

* classify(gate)        -> (base, n_controls)   e.g. CCX -> ("X", 2), CP -> ("P", 1)
* rev_run(...)          classical reversible simulation, bit-parallel over rows
* unitary(...) / statevector(...)  dense numpy simulation, little-endian
  (qubit k is bit k of the basis index) - the convention of qiskit and of the
  library's own tests.

Only gate *objects* of the library are inspected (class, n_controls, inner
gate, parameter); none of the library's simulators or exporters is used.
"""

import cmath
import math

import numpy as np

BASES = ("I", "X", "Y", "Z", "H", "S", "T", "P", "SWAP")


class NotClassical(Exception):
    pass


class UnknownGate(Exception):
    pass


def classify(g):
    """Return (base, n_controls) for a library gate object; ('BARRIER',0) for nops."""
    if g.is_nop():
        return ("BARRIER", 0)
    nc = 0
    inner = g
    # QControlledGate carries n_controls and the inner gate object
    while hasattr(inner, "n_controls") and hasattr(inner, "gate"):
        nc += inner.n_controls
        inner = inner.gate
    base = type(inner).__name__
    if base == "Swap":
        base = "SWAP"
    if base not in BASES:
        raise UnknownGate(f"{type(g).__name__}/{base}")
    expected = nc + (2 if base == "SWAP" else 1)
    if g.n_qubits != expected:
        raise UnknownGate(f"{type(g).__name__}: n_qubits {g.n_qubits} != {expected}")
    return (base, nc)


def gate_sig(applied):
    """JSON-able signature of an applied gate (name, qubits, param)."""
    g, w, p = applied
    base, nc = classify(g)
    return [base, nc, list(w), None if p is None else (float(p) if isinstance(p, (int, float)) else str(p))]


def is_classical_sig(base, nc):
    return base == "X"


# ---------------------------------------------------------------- reversible


def rev_run(gates, cols, mask):
    """Run X/CX/CCX/MCX gates on qubit columns (list of ints), in place."""
    for g, w, p in gates:
        base, nc = classify(g)
        if base == "BARRIER":
            continue
        if base == "I" and nc == 0:
            continue
        if base != "X":
            raise NotClassical(f"{base} with {nc} controls")
        if len(set(w)) != len(w):
            raise NotClassical(f"duplicate qubits {w}")
        if nc == 0:
            cols[w[0]] ^= mask
        else:
            c = mask
            for q in w[:-1]:
                c &= cols[q]
            cols[w[-1]] ^= c
    return cols


# ------------------------------------------------------------------- dense

_SQ2 = 1 / math.sqrt(2)


def base_matrix(base, p):
    if base == "I":
        return np.eye(2, dtype=complex)
    if base == "X":
        return np.array([[0, 1], [1, 0]], dtype=complex)
    if base == "Y":
        return np.array([[0, -1j], [1j, 0]], dtype=complex)
    if base == "Z":
        return np.array([[1, 0], [0, -1]], dtype=complex)
    if base == "H":
        return np.array([[_SQ2, _SQ2], [_SQ2, -_SQ2]], dtype=complex)
    if base == "S":
        return np.array([[1, 0], [0, 1j]], dtype=complex)
    if base == "T":
        return np.array([[1, 0], [0, cmath.exp(1j * math.pi / 4)]], dtype=complex)
    if base == "P":
        if p is None:
            raise UnknownGate("P without parameter")
        return np.array([[1, 0], [0, cmath.exp(1j * float(p))]], dtype=complex)
    if base == "SWAP":
        return np.array(
            [[1, 0, 0, 0], [0, 0, 1, 0], [0, 1, 0, 0], [0, 0, 0, 1]], dtype=complex
        )
    raise UnknownGate(base)


def _apply(T, n, mat, targets, controls):
    """Apply mat on `targets` controlled on `controls`.  T's first n axes are
    qubit axes, axis (n-1-k) belongs to qubit k."""
    ax = lambda q: n - 1 - q  # noqa: E731
    idx = [slice(None)] * T.ndim
    for c in controls:
        idx[ax(c)] = 1
    idx = tuple(idx)
    sub = T[idx]
    removed = sorted(ax(c) for c in controls)

    def subax(a):
        return a - sum(1 for r in removed if r < a)

    taxes = [subax(ax(t)) for t in targets]
    m = len(targets)
    G = mat.reshape((2,) * (2 * m))
    new = np.tensordot(G, sub, axes=(list(range(m, 2 * m)), taxes))
    new = np.moveaxis(new, list(range(m)), taxes)
    T[idx] = new


def _run_dense(T, n, gates):
    for g, w, p in gates:
        base, nc = classify(g)
        if base == "BARRIER":
            continue
        if len(set(w)) != len(w):
            raise UnknownGate(f"duplicate qubits {w}")
        for q in w:
            if not (0 <= q < n):
                raise UnknownGate(f"qubit {q} out of range {n}")
        mat = base_matrix(base, p)
        controls = list(w[:nc])
        targets = list(w[nc:])
        _apply(T, n, mat, targets, controls)
    return T


def unitary(num_qubits, gates):
    n = num_qubits
    D = 1 << n
    T = np.eye(D, dtype=complex).reshape((2,) * n + (D,))
    T = np.ascontiguousarray(T)
    _run_dense(T, n, gates)
    return T.reshape(D, D)


def statevector(num_qubits, gates, init_index=0):
    n = num_qubits
    D = 1 << n
    v = np.zeros(D, dtype=complex)
    v[init_index] = 1
    T = v.reshape((2,) * n) if n > 0 else v
    _run_dense(T, n, gates)
    return T.reshape(D)


def marginal(probs, n, qubits):
    """Marginal distribution over `qubits` (list, order defines bit order:
    qubits[j] is bit j of the returned index)."""
    P = np.asarray(probs).reshape((2,) * n)
    keep_axes = [n - 1 - q for q in qubits]
    other = tuple(a for a in range(n) if a not in keep_axes)
    M = P.sum(axis=other) if other else P
    # remaining axes are in increasing original-axis order; reorder so that
    # qubits[-1] is the most significant (first) axis
    remaining = [a for a in range(n) if a in keep_axes]
    order = [remaining.index(n - 1 - q) for q in reversed(qubits)]
    M = np.transpose(M, order)
    return M.reshape(1 << len(qubits))


def embed(U_small, qubits, n):
    """Matrix on n qubits acting as U_small on the listed qubits (qubit j of the
    small circuit -> qubits[j])."""
    m = len(qubits)
    D = 1 << n
    T = np.eye(D, dtype=complex).reshape((2,) * n + (D,))
    T = np.ascontiguousarray(T)
    # U_small index bit j <-> small qubit j; as a tensor its axis (m-1-j) <-> qubit j.
    # _apply wants mat.reshape((2,)*2m) with out axes ordered like `targets`.
    # give targets in the order matching U_small's axes: axis a <-> small qubit m-1-a
    targets = [qubits[m - 1 - a] for a in range(m)]
    _apply(T, n, np.asarray(U_small, dtype=complex), targets, [])
    return T.reshape(D, D)


def perm_from_unitary(U, tol=1e-9):
    """If U is a 0/1 permutation matrix return the list p with U|j> = |p[j]>."""
    D = U.shape[0]
    p = []
    for j in range(D):
        col = U[:, j]
        i = int(np.argmax(np.abs(col)))
        if abs(col[i] - 1) > tol or np.sum(np.abs(col)) - abs(col[i]) > tol:
            return None
        p.append(i)
    return p
