"""Import (once, outside any per-case time limit) everything the checks and the library import lazily.

A time limit that fires in the middle of `import cirq` would leave a half-initialised module in
sys.modules, and every later export in that worker would raise AttributeError: an artefact of the
harness, not of the code under test. Workers therefore start with all heavy imports completed."""


def warm():
    try:
        import hypothesis  # noqa: F401
        import numpy  # noqa: F401
        import sympy  # noqa: F401
        from sympy.logic.boolalg import to_anf  # noqa: F401
        from sympy.physics.quantum.qapply import qapply  # noqa: F401
        from sympy.physics.quantum.represent import represent  # noqa: F401
    except Exception:
        pass
    for stmt in (
        "import qiskit; from qiskit import QuantumCircuit; from qiskit.quantum_info import Operator",
        "import cirq",
        "import pyqubo",
        "import qlasskit, qlasskit.algorithms, qlasskit.decompiler, qlasskit.tools, qlasskit.bqm",
    ):
        try:
            exec(stmt, {})
        except Exception:
            pass
    try:
        # one tiny export per framework: triggers the frameworks' own lazy sub-imports
        from qlasskit.qcircuit import QCircuit

        qc = QCircuit(2, name="warm")
        qc.h(0)
        qc.cx(0, 1)
        for fw in ("qiskit", "cirq", "sympy", "qasm", "qasm3"):
            for mode in ("circuit", "gate"):
                try:
                    qc.export(mode, fw)
                except Exception:
                    pass
    except Exception:
        pass


warm()
