"""Shared evaluation of generated programs: compile with the library, evaluate
its expression list on all rows (boolsem), run the reference on every row.
"""

import signal
import traceback

from vlib import boolsem, gen_prog, refsem


class Timeout(BaseException):
    """raised by the repeating interval timer; BaseException so that broad
    'except Exception' handlers inside sympy / the library do not swallow it"""


def _alarm(*a):
    raise Timeout()


class time_limit:
    """with time_limit(s): ... raises Timeout inside the block after s seconds (repeating every 0.5 s in
    case a bare except swallows it).  Re-entrant: an enclosing limit is restored on exit."""

    def __init__(self, seconds):
        self.seconds = seconds

    def __enter__(self):
        import time

        self.t0 = time.time()
        self.old = signal.signal(signal.SIGALRM, _alarm)
        self.prev = signal.getitimer(signal.ITIMER_REAL)  # (remaining, interval) of an enclosing limit
        secs = self.seconds
        if self.prev[0] > 0:
            secs = min(secs, self.prev[0])
        signal.setitimer(signal.ITIMER_REAL, max(secs, 0.01), 0.5)

    def __exit__(self, *a):
        import time

        signal.setitimer(signal.ITIMER_REAL, 0, 0)
        signal.signal(signal.SIGALRM, self.old)
        if self.prev[0] > 0:
            left = self.prev[0] - (time.time() - self.t0)
            signal.setitimer(signal.ITIMER_REAL, max(left, 0.01), self.prev[1] or 0.5)
        return False


def rejection_key(e):
    tb = traceback.extract_tb(e.__traceback__)
    fr = [x for x in tb if "qlasskit" in x.filename]
    where = f"{fr[-1].filename.split('/')[-1]}:{fr[-1].name}" if fr else "?"
    return f"{type(e).__name__}@{where}"


def optimizer(name):
    from qlasskit.boolopt import defaultOptimizer, fastOptimizer

    return {"default": defaultOptimizer, "fast": fastOptimizer}[name]


def compile_lib(src, opt="default", to_compile=False, uncompute=True, defs=(), seconds=None):
    """-> (qf, None) or (None, rejection_key) ; raises Timeout"""
    from qlasskit import qlassf
    import os

    if seconds is None:
        seconds = 6 if os.environ.get("VERIF_TIER_ACTIVE", "quick") == "quick" else 20
    with time_limit(seconds):
        try:
            qf = qlassf(src, to_compile=to_compile, bool_optimizer=optimizer(opt), uncompute=uncompute, defs=list(defs))
            return qf, None
        except Timeout:
            raise
        except Exception as e:
            return None, rejection_key(e)


def arg_bit_names(prog):
    """independent statement of the argument bit naming: name.k for Qtypes, name for bool,
    name.i.j for nested tuples"""
    out = []

    def walk(base, t):
        t = gen_prog.expand(t)
        if t[0] == "bool":
            out.append(base)
        elif t[0] == "tuple":
            for i, x in enumerate(t[1]):
                walk(f"{base}.{i}", x)
        else:
            for k in range(gen_prog.nbits(t)):
                out.append(f"{base}.{k}")

    for nm, t in prog["args"]:
        walk(nm, t)
    return out


def ret_bit_names(prog):
    out = []

    def walk(base, t):
        t = gen_prog.expand(t)
        if t[0] == "bool":
            out.append(base)
        elif t[0] == "tuple":
            for i, x in enumerate(t[1]):
                walk(f"{base}.{i}", x)
        else:
            for k in range(gen_prog.nbits(t)):
                out.append(f"{base}.{k}")

    walk("_ret", prog["ret"])
    return out


def lib_columns(qf, n):
    """columns of every defined symbol of qf.expressions over the 2^n rows"""
    mask = boolsem.full_mask(n)
    cols = boolsem.input_columns(n)
    names = [b for a in qf.args for b in a.bitvec]
    env0 = dict(zip(names, cols))
    return boolsem.ev_list(qf.expressions, env0, mask), mask


def row_args(prog, r):
    bits_all = []
    vals = []
    plain = []
    pos = 0
    for nm, t in prog["args"]:
        n = gen_prog.nbits(t)
        bits = [(r >> (pos + k)) & 1 for k in range(n)]
        vals.append(gen_prog.decode_value(t, bits))
        plain.append(gen_prog.plain_value(t, bits))
        pos += n
    return vals, plain


class RefRun:
    """reference function of a program, evaluated row by row"""

    def __init__(self, prog, extra_ns=None, extra_env=None):
        self.prog = prog
        self.src = gen_prog.render_ref(prog, extra_env)
        ns = refsem.namespace()
        if extra_ns:
            ns.update(extra_ns)
        exec(compile(self.src, "<reference>", "exec"), ns)
        self.fn = ns[prog["name"]]
        self.ns = ns

    def row(self, r):
        """-> ('ok', expected_bits) | ('undetermined', why) | ('pyerror', why) | ('domain', why)"""
        vals, _ = row_args(self.prog, r)
        return self.call(vals)

    def call(self, vals):
        try:
            v = self.fn(*vals)
            return "ok", gen_prog.encode_expected(self.prog["ret"], v)
        except refsem.Undetermined as e:
            return "undetermined", str(e)
        except refsem.OutOfDomain as e:
            return "domain", str(e)
        except gen_prog.RefTypeError as e:
            return "reftype", str(e)
        except (IndexError, ZeroDivisionError, TypeError, ValueError, OverflowError) as e:
            return "pyerror", repr(e)
