"""G-CIRC: Hypothesis strategies for circuits over the library's gate set.

A circuit case is JSON:  {"n": <qubits>, "gates": [[name, [qubits...], param], ...]}
names: X Y Z H S T P I CX CZ CP CCX MCX MCZ SWAP BARRIER
"""

import math

from hypothesis import strategies as st

ANGLES = [math.pi / 2, math.pi / 4, -math.pi / 8, math.pi, 0.3, -1.1, 2.5, 0.0]

ARITY = {
    "X": 1, "Y": 1, "Z": 1, "H": 1, "S": 1, "T": 1, "P": 1, "I": 1,
    "CX": 2, "CZ": 2, "CP": 2, "SWAP": 2, "CCX": 3, "BARRIER": 0,
}  # MCX / MCZ: variable

CLASSICAL = ("X", "CX", "CCX", "MCX")
NONCLASSICAL_1 = ("H", "Z", "S", "T", "Y", "P")
NONCLASSICAL_2 = ("CZ", "CP", "SWAP")


def qubits(n, k):
    return st.lists(st.integers(0, n - 1), min_size=k, max_size=k, unique=True)


@st.composite
def gate(draw, n, names):
    """One gate from `names` that fits on n qubits."""
    fit = []
    for nm in names:
        if nm in ("MCX", "MCZ", "MCTX"):
            need = 3 if nm == "MCX" else 2
            if n >= need + (1 if nm == "MCX" else 0):
                fit.append(nm)
        elif ARITY[nm] <= n:
            fit.append(nm)
    nm = draw(st.sampled_from(fit))
    if nm == "BARRIER":
        return ["BARRIER", [], None]
    if nm == "MCX":
        k = draw(st.integers(3, min(n - 1, 5)))  # controls
        return ["MCX", draw(qubits(n, k + 1)), None]
    if nm in ("MCZ", "MCTX"):
        k = draw(st.integers(1, min(n - 1, 4)))
        return [nm, draw(qubits(n, k + 1)), None]
    qs = draw(qubits(n, ARITY[nm]))
    p = draw(st.sampled_from(ANGLES)) if nm in ("P", "CP") else None
    return [nm, qs, p]


def gate_list(n, names, min_size=0, max_size=12):
    return st.lists(gate(n, names), min_size=min_size, max_size=max_size)


def build(case, cls=None, name=None):
    """Build a library QCircuit from a case."""
    from qlasskit.qcircuit import QCircuit, gates as G

    cls = cls or QCircuit
    qc = cls(case["n"]) if name is None else cls(case["n"], name=name)
    for nm, qs, p in case["gates"]:
        append_gate(qc, nm, qs, p, G)
    return qc


def append_gate(qc, nm, qs, p, G=None):
    if G is None:
        from qlasskit.qcircuit import gates as G
    if nm == "BARRIER":
        qc.append(G.Barrier(), [], p)
    elif nm == "MCX":
        qc.append(G.MCX(len(qs) - 1), list(qs))
    elif nm == "MCZ":
        qc.append(G.MCtrl(G.Z(), len(qs) - 1), list(qs))
    elif nm == "MCTX":  # multi-controlled X built with the generic mctrl() (not the MCX class)
        qc.append(G.MCtrl(G.X(), len(qs) - 1), list(qs))
    elif nm == "SWAP":
        qc.append(G.Swap(), list(qs))
    elif nm in ("P", "CP"):
        qc.append(getattr(G, nm)(), list(qs), p)
    else:
        qc.append(getattr(G, nm)(), list(qs))


def sig_of_case_gate(g):
    """(base, n_controls, qubits, param) as produced by sims.gate_sig."""
    nm, qs, p = g
    table = {
        "X": ("X", 0), "Y": ("Y", 0), "Z": ("Z", 0), "H": ("H", 0), "S": ("S", 0), "T": ("T", 0),
        "P": ("P", 0), "I": ("I", 0), "CX": ("X", 1), "CZ": ("Z", 1), "CP": ("P", 1), "CCX": ("X", 2),
        "SWAP": ("SWAP", 0), "BARRIER": ("BARRIER", 0),
    }
    if nm in ("MCX", "MCTX"):
        return ["X", len(qs) - 1, list(qs), None]
    if nm == "MCZ":
        return ["Z", len(qs) - 1, list(qs), None]
    b, c = table[nm]
    return [b, c, list(qs), None if p is None else float(p)]


def sigs(qc):
    from vlib.sims import gate_sig

    return [gate_sig(a) for a in qc.gates]


# ----------------------------------------------------------- shaped circuits


@st.composite
def classical_run(draw, n, min_size=1, max_size=8, barriers=True):
    names = [x for x in CLASSICAL] + (["BARRIER"] if barriers else [])
    gl = draw(st.lists(gate(n, names), min_size=min_size, max_size=max_size))
    return gl


@st.composite
def swap_triple(draw, n):
    a, b = draw(qubits(n, 2))
    return [["CX", [a, b], None], ["CX", [b, a], None], ["CX", [a, b], None]]


@st.composite
def cancelling(draw, n):
    g = draw(gate(n, list(CLASSICAL)))
    return [g, [g[0], list(g[1]), g[2]]]


@st.composite
def mixed_circuit(draw, min_q=1, max_q=5, max_segments=4, nonclassical=NONCLASSICAL_1 + NONCLASSICAL_2, shapes=True, run_max=8, identity=False):
    """Classical runs interleaved with non-classical gates and barriers."""
    n = draw(st.integers(min_q, max_q))
    out = []
    nseg = draw(st.integers(1, max_segments))
    for s in range(nseg):
        kind = draw(st.integers(0, 9))
        if kind <= 4:
            out.extend(draw(classical_run(n, 1, run_max)))
        elif kind == 5 and n >= 2 and shapes:
            out.extend(draw(swap_triple(n)))
            if draw(st.booleans()):
                out.extend(draw(classical_run(n, 0, 3, barriers=False)))
        elif kind == 6 and shapes:
            out.extend(draw(cancelling(n)))
        elif kind == 7:
            out.append(["BARRIER", [], None])
            out.extend(draw(classical_run(n, 1, 4)))
            out.append(["BARRIER", [], None])
            if draw(st.booleans()):
                out.append(["BARRIER", [], None])
        else:
            out.extend(draw(st.lists(gate(n, list(nonclassical)), min_size=1, max_size=3)))
        # separator
        if s < nseg - 1 and draw(st.integers(0, 3)) > 0:
            out.extend(draw(st.lists(gate(n, list(nonclassical) + ["BARRIER"]), min_size=1, max_size=2)))
    if identity and out and draw(st.integers(0, 9)) < 3:
        for _ in range(draw(st.integers(1, 2))):
            out.insert(draw(st.integers(0, len(out))), ["I", [draw(st.integers(0, n - 1))], None])
    return {"n": n, "gates": out}


def general_circuit(min_q=1, max_q=5, max_gates=14, names=None):
    names = names or ["X", "Y", "Z", "H", "S", "T", "P", "CX", "CZ", "CP", "CCX", "MCX", "MCZ", "SWAP", "BARRIER"]

    @st.composite
    def _c(draw):
        n = draw(st.integers(min_q, max_q))
        return {"n": n, "gates": draw(gate_list(n, names, 0, max_gates))}

    return _c()
