"""Independent bit-parallel evaluator for sympy boolean trees.

Every boolean variable is represented by a Python int whose bit r is the value
of the variable on row r of the truth table (row r assigns input bit i the
value (r >> i) & 1).  One pass over an expression therefore evaluates it on
*all* rows.  Nothing here calls sympy's subs / simplify / satisfiable, so the
evaluator shares no code with the library's truth_table() or optimizers.
"""

from sympy import Symbol
from sympy.logic.boolalg import (
    ITE,
    And,
    BooleanFalse,
    BooleanTrue,
    Equivalent,
    Implies,
    Nand,
    Nor,
    Not,
    Or,
    Xnor,
    Xor,
)


class UnsupportedNode(Exception):
    pass


class FreeSymbol(Exception):
    pass


def input_columns(n):
    """Columns of the n input bits over 2**n rows (row r: bit i = (r>>i)&1)."""
    rows = 1 << n
    cols = []
    for i in range(n):
        half = 1 << i
        period = half << 1
        block = ((1 << half) - 1) << half
        rep = ((1 << rows) - 1) // ((1 << period) - 1)
        cols.append(block * rep)
    return cols


def full_mask(n):
    return (1 << (1 << n)) - 1


def ev(e, env, mask):
    """Evaluate expression e; env maps symbol *names* to columns."""
    if e is True:
        return mask
    if e is False:
        return 0
    if isinstance(e, BooleanTrue):
        return mask
    if isinstance(e, BooleanFalse):
        return 0
    if isinstance(e, Symbol):
        try:
            return env[e.name]
        except KeyError:
            raise FreeSymbol(e.name)
    if isinstance(e, Not):
        return mask ^ ev(e.args[0], env, mask)
    if isinstance(e, And):
        r = mask
        for a in e.args:
            r &= ev(a, env, mask)
        return r
    if isinstance(e, Or):
        r = 0
        for a in e.args:
            r |= ev(a, env, mask)
        return r
    if isinstance(e, Xor):
        r = 0
        for a in e.args:
            r ^= ev(a, env, mask)
        return r
    if isinstance(e, ITE):
        c = ev(e.args[0], env, mask)
        t = ev(e.args[1], env, mask)
        f = ev(e.args[2], env, mask)
        return (c & t) | ((mask ^ c) & f)
    if isinstance(e, Implies):
        a = ev(e.args[0], env, mask)
        b = ev(e.args[1], env, mask)
        return (mask ^ a) | b
    if isinstance(e, Nand):
        r = mask
        for a in e.args:
            r &= ev(a, env, mask)
        return mask ^ r
    if isinstance(e, Nor):
        r = 0
        for a in e.args:
            r |= ev(a, env, mask)
        return mask ^ r
    if isinstance(e, Xnor):
        r = 0
        for a in e.args:
            r ^= ev(a, env, mask)
        return mask ^ r
    if isinstance(e, Equivalent):
        cols = [ev(a, env, mask) for a in e.args]
        r = mask
        for c in cols[1:]:
            r &= mask ^ (cols[0] ^ c)
        return r
    raise UnsupportedNode(type(e).__name__)


def ev_list(exprs, env, mask):
    """Sequential semantics of a definition list [(Symbol, expr), ...]:
    later definitions see earlier ones; re-definitions shadow.  Returns the
    final environment (a new dict)."""
    env = dict(env)
    for s, e in exprs:
        name = s.name if isinstance(s, Symbol) else str(s)
        env[name] = ev(e, env, mask)
    return env


def col_to_rows(col, nrows):
    return [(col >> r) & 1 for r in range(nrows)]


def first_diff_row(a, b):
    d = a ^ b
    if d == 0:
        return None
    return (d & -d).bit_length() - 1
