"""G-NEG: programs wrapping ONE construct adjacent to the documented subset but outside it.
The list is closed.  Contract checked by C01: the library either raises, or the accepted
function agrees with CPython's meaning of the source (where that meaning is defined in the
fixed-width unsigned reading; otherwise the accepted program is counted but not judged).
"""

from hypothesis import strategies as st

from vlib import refsem

# name, needs (arg kinds), body template (lib), reference body template or None
TEMPLATES = [
    ("floordiv-const", "return a // {c}", "return _fdiv(a, {c})"),
    ("floordiv-var", "return a // b", "return _fdiv(a, b)"),
    ("truediv", "return a / {c}", None),
    ("usub", "return -a", "return _neg(a)"),
    ("usub-in-expr", "return b + (-a)", "return b + _neg(a)"),
    ("neg-const", "return a + (-{c})", "return a - {c}"),
    ("pow-var", "return a ** b", None),
    ("mod-non-pow2", "return a % {m}", "return _mod(a, {m})"),
    ("mod-var", "return a % b", "return a % b"),
    ("neg-subscript", "return a[-1]", "return a[{wm1}]"),
    ("slice-subscript", "return a[0:1][0]", None),
    ("chained-compare", "return a < b < {c}", "return (a < b) and (b < {c})"),
    ("chained-compare-eq", "return a == b == b", "return (a == b) and (b == b)"),
    ("in-tuple", "return a in (1, {c})", "return (a == 1) or (a == {c})"),
    ("not-in", "return a not in (1, {c})", "return not ((a == 1) or (a == {c}))"),
    ("is", "return a is b", None),
    ("shift-var", "return a << b", "return _shl(a, b)"),
    ("rshift-var", "return a >> b", "return _shr(a, b)"),
    ("abs", "return abs(a)", "return a"),
    ("divmod", "return divmod(a, 2)[1]", "return a % 2"),
    ("bool-cast", "return bool(a)", "return a != 0"),
    ("int-truth", "return (a and b) == a", None),
    ("while", "x = a\n    while x[0]:\n        x = x + 1\n    return x", None),
    ("lambda", "g = lambda v: v + 1\n    return g(a)", "return a + 1"),
    ("expr-stmt-in-if", "x = a\n    if b[0]:\n        a + 1\n    return x", "return a"),
    ("return-in-if", "if b[0]:\n        return a\n    return b", None),
    ("nonconst-range", "x = a\n    for i in range(b):\n        x = x + 1\n    return x", "return _addn(a, b)"),
    ("int-plus-float", "return a + 0.5", None),
    ("int-times-float", "return a * 1.5", None),
    ("augassign-subscript", "x = a\n    x[0] = b[0]\n    return x", None),
    ("ternary-int-test", "return a if b else b", None),
    ("not-int", "return not a", None),
    ("string-const", "return a + 'x'", None),
    ("walrus", "return (x := a) + x", "return a + a"),
    ("global-name", "return a + undefined_name", None),
    ("star-args", "return max(*[a, b])", "return max(a, b)"),
    ("kwarg-call", "return max(a, b, key=None)", None),
    ("list-comp", "return sum([v for v in (a, b)])", "return a + b"),
    ("tuple-index-var-of-int", "return a[b]", None),
]

BOOL_RET = {"neg-subscript", "chained-compare", "chained-compare-eq", "in-tuple", "not-in", "is", "bool-cast", "int-truth", "not-int", "tuple-index-var-of-int", "slice-subscript"}


def _fdiv(a, b):
    a, b = refsem.RInt.of(a), refsem.RInt.of(b)
    return refsem.RInt(a.exact() // b.exact(), max(a.w, b.w))


def _neg(a):
    a = refsem.RInt.of(a)
    return refsem.RInt(-a.v, a.w, a.k)


def _mod(a, b):
    a, b = refsem.RInt.of(a), refsem.RInt.of(b)
    return refsem.RInt(a.exact() % b.exact(), max(a.w, b.w))


def _shl(a, b):
    a, b = refsem.RInt.of(a), refsem.RInt.of(b)
    return refsem.RInt(a.v << b.exact(), a.w, a.k)


def _shr(a, b):
    a, b = refsem.RInt.of(a), refsem.RInt.of(b)
    return refsem.RInt(a.exact() >> b.exact(), a.w)


def _addn(a, b):
    a, b = refsem.RInt.of(a), refsem.RInt.of(b)
    r = a
    for _ in range(b.exact()):
        r = r + 1
    return r


EXTRA_NS = {"_fdiv": _fdiv, "_neg": _neg, "_mod": _mod, "_shl": _shl, "_shr": _shr, "_addn": _addn}


@st.composite
def negative_program(draw):
    name, body, refbody = draw(st.sampled_from(TEMPLATES))
    wa = draw(st.sampled_from([2, 3, 4]))
    wb = draw(st.sampled_from([2, 2, 4]))
    c = draw(st.sampled_from([2, 3, 5]))
    m = draw(st.sampled_from([3, 5, 6, 7]))
    fm = {"c": c, "m": m, "wm1": wa - 1}
    if name in BOOL_RET:
        ret = ["bool"]
    else:
        ret = ["int", draw(st.sampled_from([wa, 4, 8]))]
    from vlib import gen_prog

    args = [["a", ["int", wa]], ["b", ["int", wb]]]
    head = f"def f(a: Qint[{wa}], b: Qint[{wb}]) -> {gen_prog.ann(ret)}:\n    "
    src = head + body.format(**fm) + "\n"
    ref_src = None
    if refbody is not None:
        ref_src = "def f(a, b):\n    " + refbody.format(**fm) + "\n"
    return {"neg": name, "name": "f", "args": args, "ret": ret, "src": src, "ref_src": ref_src}
