"""Shared machinery of C02 / C03 / C06: compile generated programs with the internal
compiler and simulate the circuit on all basis inputs (bit-parallel reversible simulation).
"""

from hypothesis import strategies as st

from vlib import boolsem, gen_prog, progeval, sims

MAX_BITS = 10


def bool_shape_cfg():
    return gen_prog.Cfg(
        use_int=False, use_char=False, use_fixed=False, use_builtins=True, use_vidx=False,
        max_in_bits=6, max_args=5, depth=4, max_stmts=3, ret_kinds=("bool", "bool", "tuple"), use_tuple=True,
    )


def small_int_cfg():
    return gen_prog.Cfg(
        int_widths=[2, 2, 3, 4], max_in_bits=7, max_args=3, depth=2, max_stmts=3, use_char=False, use_fixed=False,
        ret_kinds=("bool", "int", "tuple"),
    )


def general_cfg():
    return gen_prog.Cfg(max_in_bits=7, depth=2, max_stmts=3)


@st.composite
def case(draw, bool_only_ret=False, uncompute_opts=(True, False)):
    which = draw(st.integers(0, 9))
    if which < 5:
        cfg = bool_shape_cfg()
    elif which < 8:
        cfg = small_int_cfg()
    else:
        cfg = general_cfg()
    if bool_only_ret:
        prog = draw(gen_prog.program(cfg, ret=["bool"]))
    else:
        prog = draw(gen_prog.program(cfg))
    return {
        "prog": prog,
        "opt": draw(st.sampled_from(["default", "fast"])),
        "uncompute": draw(st.sampled_from(list(uncompute_opts))),
        # QlassF.compile() called again on the same object: "flip" first compiles with the other uncompute
        # setting, "same" with the same one; the circuit judged is the one the last compile() leaves
        "recompile": draw(st.sampled_from([None, None, None, "flip", "same"])),
    }


def compile_case(case):
    """-> (status, payload): ('ok', (qf, src, feats)) | ('skip'|'rejected', verdict-dict)"""
    prog = case["prog"]
    feats = ["opt:" + case["opt"], "uncompute:%s" % case["uncompute"]]
    try:
        src = prog["src"] if prog.get("neg") else gen_prog.render_lib(prog)
        if not prog.get("neg"):
            feats += gen_prog.features(prog)
    except gen_prog.GenTypeError:
        return "skip", {"status": "skip", "nontrivial": False, "features": feats + ["gen-type-error"]}
    nbits = sum(gen_prog.nbits(t) for _, t in prog["args"])
    if nbits > MAX_BITS:
        return "skip", {"status": "skip", "nontrivial": False, "features": feats + ["too-many-bits"]}
    rec = case.get("recompile")
    first = (not case["uncompute"]) if rec == "flip" else case["uncompute"]
    try:
        qf, rej = progeval.compile_lib(src, case["opt"], to_compile=True, uncompute=first)
        if qf is not None and rec:
            feats.append("recompile:" + rec)
            with progeval.time_limit(20):
                try:
                    qf.compile(uncompute=case["uncompute"])
                except progeval.Timeout:
                    raise
                except Exception as e:
                    return "violation", {"status": "violation", "kind": "recompile-raises", "detail": {"src": src, "exc": repr(e), "recompile": rec}, "features": feats}
    except progeval.Timeout:
        return "skip", {"status": "skip", "nontrivial": False, "features": feats + ["timeout"]}
    if qf is None:
        return "rejected", {"status": "rejected", "nontrivial": False, "features": feats + ["rejected:" + rej]}
    return "ok", (qf, src, feats, nbits)


def circuit_facts(qf, nbits):
    """Simulate on all basis inputs. Returns dict(cols_final, mask, exp_cols, qc) or raises sims.NotClassical"""
    qc = qf.circuit()
    nq = qc.num_qubits
    mask = boolsem.full_mask(nbits)
    incols = boolsem.input_columns(nbits)
    cols = list(incols) + [0] * (nq - nbits)
    sims.rev_run(qc.gates, cols, mask)
    return {"qc": qc, "nq": nq, "mask": mask, "incols": incols, "final": cols}


def describe(qf, src, extra=None):
    qc = qf.circuit()
    d = {
        "src": src,
        "expressions": [(str(s), str(e)) for s, e in qf.expressions][:30],
        "gates": [sims.gate_sig(g)[:3] for g in qc.gates][:80],
        "qubit_map": dict(qc.qubit_map),
        "num_qubits": qc.num_qubits,
    }
    if extra:
        d.update(extra)
    return d


def row_assignment(qf, r):
    names = [b for a in qf.args for b in a.bitvec]
    return {nm: (r >> i) & 1 for i, nm in enumerate(names)}


def gate_stats(qc):
    multi = 0
    n = 0
    for g in qc.gates:
        base, nc = sims.classify(g[0])
        if base == "BARRIER":
            continue
        n += 1
        if nc >= 2:
            multi += 1
    return n, multi


def judge(case, mode):  # noqa: C901
    """mode: 'c02' outputs, 'c03' cleanliness, 'c06' xor-oracle"""
    st_, payload = compile_case(case)
    if st_ != "ok":
        return payload
    qf, src, feats, nbits = payload
    qc = qf.circuit()
    nq = qc.num_qubits
    kind_sfx = ""
    # structural facts common to all modes
    if nq < nbits:
        return {"status": "violation", "kind": "fewer-qubits-than-inputs", "detail": describe(qf, src), "features": feats}
    ret_names = list(qf.returns.bitvec)
    for b in ret_names:
        if b not in qc.qubit_map:
            if mode == "c02":
                return {"status": "violation", "kind": "return-bit-not-mapped", "detail": describe(qf, src, {"bit": b}), "features": feats}
            return {"status": "skip", "nontrivial": False, "features": feats + ["return-bit-not-mapped"]}
        if not (0 <= qc.qubit_map[b] < nq):
            return {"status": "violation", "kind": "return-qubit-out-of-range", "detail": describe(qf, src, {"bit": b}), "features": feats}
    try:
        facts = circuit_facts(qf, nbits)
    except sims.NotClassical as e:
        return {"status": "skip", "nontrivial": False, "features": feats + ["non-classical-gate"], "detail": str(e)}
    except sims.UnknownGate as e:
        return {"status": "violation", "kind": "malformed-gate", "detail": describe(qf, src, {"exc": str(e)}), "features": feats}
    mask, incols, final = facts["mask"], facts["incols"], facts["final"]
    try:
        exp_cols, _ = progeval.lib_columns(qf, nbits)
    except (boolsem.FreeSymbol, boolsem.UnsupportedNode):
        return {"status": "skip", "nontrivial": False, "features": feats + ["expressions-not-evaluable"]}
    n_gates, n_multi = gate_stats(qc)
    out_qubits = sorted({qc.qubit_map[b] for b in ret_names})
    const = all(exp_cols[b] in (0, mask) for b in ret_names)
    projection = all(any(exp_cols[b] == c for c in incols) for b in ret_names)
    scratch = [q for q in range(nbits, nq) if q not in out_qubits]
    touched = set()
    for g, w, p in qc.gates:
        touched.update(w)
    scratch_touched = [q for q in scratch if q in touched]
    feats.append("qubits:%d" % min(nq, 16))
    if scratch_touched:
        feats.append("has-scratch")

    if mode == "c02":
        for b in ret_names:
            q = qc.qubit_map[b]
            if final[q] != exp_cols[b]:
                r = boolsem.first_diff_row(final[q], exp_cols[b])
                return {
                    "status": "violation",
                    "kind": "output-mismatch" + kind_sfx,
                    "detail": describe(qf, src, {"bit": b, "qubit": q, "input": row_assignment(qf, r), "expected": (exp_cols[b] >> r) & 1, "opt": case["opt"], "uncompute": case["uncompute"]}),
                    "features": feats,
                }
        nontrivial = (n_multi >= 1 or n_gates >= 8) and not const and not projection
        return {"status": "ok", "nontrivial": nontrivial, "features": feats, "rows": 1 << nbits}

    if mode == "c03":
        for i in range(nbits):
            if final[i] != incols[i]:
                r = boolsem.first_diff_row(final[i], incols[i])
                return {"status": "violation", "kind": "input-qubit-changed", "detail": describe(qf, src, {"qubit": i, "input": row_assignment(qf, r)}), "features": feats}
        for q in scratch:
            if final[q] != 0:
                r = boolsem.first_diff_row(final[q], 0)
                return {"status": "violation", "kind": "scratch-qubit-dirty", "detail": describe(qf, src, {"qubit": q, "names": [k for k, v in qc.qubit_map.items() if v == q], "input": row_assignment(qf, r), "opt": case["opt"]}), "features": feats}
        return {"status": "ok", "nontrivial": bool(scratch_touched) and not const, "features": feats, "rows": 1 << nbits}

    if mode == "c06":
        if len(ret_names) != 1:
            return {"status": "skip", "nontrivial": False, "features": feats + ["not-a-predicate"]}
        try:
            oq = qf.output_qubits
        except Exception as e:
            return {"status": "violation", "kind": "output_qubits-raises", "detail": describe(qf, src, {"exc": repr(e)}), "features": feats}
        if len(oq) != 1 or oq[0] != qc.qubit_map[ret_names[0]]:
            return {"status": "violation", "kind": "output_qubits-inconsistent", "detail": describe(qf, src, {"output_qubits": oq}), "features": feats}
        o = oq[0]
        if o < nbits:
            return {"status": "violation", "kind": "output-qubit-is-an-input", "detail": describe(qf, src, {"output_qubit": o}), "features": feats}
        # rows now range over (x, y): y is one more variable (bit nbits of the row index)
        n2 = nbits + 1
        mask2 = boolsem.full_mask(n2)
        cols2 = boolsem.input_columns(n2)
        ycol = cols2[nbits]
        state = list(cols2[:nbits]) + [0] * (nq - nbits)
        state[o] = ycol
        sims.rev_run(qc.gates, state, mask2)
        names = [b for a in qf.args for b in a.bitvec]
        env = boolsem.ev_list(qf.expressions, dict(zip(names, cols2[:nbits])), mask2)
        fcol = env[ret_names[0]]
        want = ycol ^ fcol
        if state[o] != want:
            r = boolsem.first_diff_row(state[o], want)
            return {
                "status": "violation",
                "kind": "not-an-xor-oracle",
                "detail": describe(qf, src, {"input": row_assignment(qf, r & ((1 << nbits) - 1)), "y": (r >> nbits) & 1, "f": (fcol >> r) & 1, "got": (state[o] >> r) & 1, "opt": case["opt"]}),
                "features": feats,
            }
        for i in range(nbits):
            if state[i] != cols2[i]:
                r = boolsem.first_diff_row(state[i], cols2[i])
                return {"status": "violation", "kind": "oracle-changes-input", "detail": describe(qf, src, {"qubit": i, "input": row_assignment(qf, r & ((1 << nbits) - 1)), "y": (r >> nbits) & 1}), "features": feats}
        for q in range(nbits, nq):
            if q != o and state[q] != 0:
                r = boolsem.first_diff_row(state[q], 0)
                return {"status": "violation", "kind": "oracle-leaves-scratch-dirty", "detail": describe(qf, src, {"qubit": q, "input": row_assignment(qf, r & ((1 << nbits) - 1)), "y": (r >> nbits) & 1}), "features": feats}
        return {"status": "ok", "nontrivial": (not const) and bool(scratch_touched), "features": feats, "rows": 1 << n2}
    raise ValueError(mode)


def health(status, features, n):
    out = []
    rej = status.get("rejected", 0)
    if n and rej / n > 0.4:
        out.append(f"FAIL rejected fraction {rej}/{n} above 40%")
    out.append(f"rejected={rej} timeouts={features.get('timeout', 0)} non-classical={features.get('non-classical-gate', 0)}")
    return out
