"""Reference semantics for generated programs: CPython executes the (annotated)
source over instrumented number objects that implement the property's wording:

* every integer value carries (value, width, tag);  tag None = exact regime,
  tag k = "only the value modulo 2^k is determined" (wrap regime);
* an operation whose mathematical result leaves [0, 2^w) moves to the wrap regime;
* a wrapped value that reaches a non-ring operation (comparison, >>, index, min/max,
  int()/float()) makes the *row* undetermined (exception Undetermined): the row is
  not judged.

Width rules mirror the result types the library assigns (max of operands for
+ - & | ^ and if-expressions, 2*max rounded up into {2,4,6,8,12,16} for *, left
width for shifts and ~); constants get the smallest of 2,4,6,8,12,16 bits.
"""

import builtins
from fractions import Fraction

QINT_SIZES = (2, 4, 6, 8, 12, 16)


class Undetermined(Exception):
    """The row's result is not determined by the property's wording."""


class OutOfDomain(Exception):
    """The row violates a documented input precondition (e.g. % by non power of two)."""


def const_width(v):
    for s in QINT_SIZES:
        if v < (1 << s):
            return s
    raise OutOfDomain("constant too big")


def mul_width(wa, wb):
    m = max(wa, wb) * 2
    for s in QINT_SIZES:
        if m <= s:
            return s
    return 16


class RInt:
    __slots__ = ("v", "w", "k")

    def __init__(self, v, w, k=None):
        if k is not None:
            k = min(k, w)
            v %= 1 << k
        elif not (0 <= v < (1 << w)):
            k = w
            v %= 1 << k
        self.v, self.w, self.k = v, w, k

    def __repr__(self):
        return f"RInt({self.v}, w={self.w}, k={self.k})"

    @staticmethod
    def of(x):
        if isinstance(x, RInt):
            return x
        if isinstance(x, bool):
            raise TypeError("bool used as integer")
        if isinstance(x, int):
            if x < 0:
                raise OutOfDomain("negative constant")
            return RInt(x, const_width(x))
        raise TypeError(f"not an integer: {x!r}")

    def exact(self):
        if self.k is not None:
            raise Undetermined("wrapped value used in a non-ring operation")
        return self.v

    # ring operations ------------------------------------------------------
    def _ring(self, other, fn, w):
        o = RInt.of(other)
        ks = [x for x in (self.k, o.k) if x is not None]
        return RInt(fn(self.v, o.v), w, min(ks) if ks else None)

    def __add__(self, o):
        o = RInt.of(o)
        return self._ring(o, lambda a, b: a + b, max(self.w, o.w))

    def __radd__(self, o):
        return RInt.of(o).__add__(self)

    def __sub__(self, o):
        o = RInt.of(o)
        return self._ring(o, lambda a, b: a - b, max(self.w, o.w))

    def __rsub__(self, o):
        return RInt.of(o).__sub__(self)

    def __mul__(self, o):
        o = RInt.of(o)
        return self._ring(o, lambda a, b: a * b, mul_width(self.w, o.w))

    def __rmul__(self, o):
        return RInt.of(o).__mul__(self)

    def __and__(self, o):
        o = RInt.of(o)
        return self._ring(o, lambda a, b: a & b, max(self.w, o.w))

    __rand__ = __and__

    def __or__(self, o):
        o = RInt.of(o)
        return self._ring(o, lambda a, b: a | b, max(self.w, o.w))

    __ror__ = __or__

    def __xor__(self, o):
        o = RInt.of(o)
        return self._ring(o, lambda a, b: a ^ b, max(self.w, o.w))

    __rxor__ = __xor__

    def __invert__(self):
        return RInt(((1 << self.w) - 1) - self.v, self.w, self.k)

    def __lshift__(self, c):
        if not isinstance(c, int) or isinstance(c, bool) or c < 0:
            raise OutOfDomain("shift by non-constant")
        return RInt(self.v << c, self.w, self.k)

    def __pow__(self, c):
        if not isinstance(c, int) or isinstance(c, bool) or c < 0:
            raise OutOfDomain("power by non-constant")
        if c == 0:
            return RInt(1, 2)
        r = self
        for _ in range(c - 1):
            r = r * self
        return r

    # non-ring operations ---------------------------------------------------
    def __rshift__(self, c):
        if not isinstance(c, int) or isinstance(c, bool) or c < 0:
            raise OutOfDomain("shift by non-constant")
        return RInt(self.exact() >> c, self.w)

    def __mod__(self, m):
        mo = RInt.of(m)
        mv = mo.exact()
        if mv <= 0 or (mv & (mv - 1)) != 0:
            raise OutOfDomain("modulo by a value that is not a power of two")
        w = max(self.w, mo.w)
        if self.k is not None:
            if mv <= (1 << self.k):
                return RInt(self.v % mv, w)
            raise Undetermined("modulo of wrapped value")
        return RInt(self.v % mv, w)

    def _cmp(self, o, fn):
        o = RInt.of(o)
        return fn(self.exact(), o.exact())

    def __eq__(self, o):
        if isinstance(o, (RInt, int)) and not isinstance(o, bool):
            return self._cmp(o, lambda a, b: a == b)
        return NotImplemented

    def __ne__(self, o):
        if isinstance(o, (RInt, int)) and not isinstance(o, bool):
            return self._cmp(o, lambda a, b: a != b)
        return NotImplemented

    def __lt__(self, o):
        return self._cmp(o, lambda a, b: a < b)

    def __le__(self, o):
        return self._cmp(o, lambda a, b: a <= b)

    def __gt__(self, o):
        return self._cmp(o, lambda a, b: a > b)

    def __ge__(self, o):
        return self._cmp(o, lambda a, b: a >= b)

    def __hash__(self):
        return hash(self.v)

    def __getitem__(self, i):
        if not isinstance(i, int) or i < 0 or i >= self.w:
            raise OutOfDomain("bit index out of range")
        if self.k is not None and i >= self.k:
            raise Undetermined("bit above the wrap width")
        return bool((self.v >> i) & 1)

    def __index__(self):
        return self.exact()

    def __bool__(self):
        raise TypeError("integer used as a truth value")


def widen(w, x):
    """_W(w, x): the static type of this node is w bits wide (if-expressions,
    min/max, re-joined branches): only ever widens."""
    if isinstance(x, RInt):
        if w > x.w:
            return RInt(x.v, w, x.k)
        return x
    if isinstance(x, int) and not isinstance(x, bool):
        r = RInt.of(x)
        return RInt(r.v, max(w, r.w), r.k)
    return x


class RFix:
    """Fixed point value num / 2^f of type Qfixed[i, f]; same exact/wrap discipline
    on the whole i+f bit pattern (tag k counts bits of the scaled integer)."""

    __slots__ = ("n", "i", "f", "k")

    def __init__(self, n, i, f, k=None):
        w = i + f
        if k is not None:
            k = min(k, w)
            n %= 1 << k
        elif not (0 <= n < (1 << w)):
            k = w
            n %= 1 << k
        self.n, self.i, self.f, self.k = n, i, f, k

    def __repr__(self):
        return f"RFix({self.n}/2^{self.f}, i={self.i}, k={self.k})"

    @staticmethod
    def of(x, like):
        if isinstance(x, RFix):
            if (x.i, x.f) != (like.i, like.f):
                raise OutOfDomain("mixed fixed-point formats")
            return x
        raise OutOfDomain("fixed-point mixed with another type")

    def exact(self):
        if self.k is not None:
            raise Undetermined("wrapped fixed value in non-ring operation")
        return Fraction(self.n, 1 << self.f)

    def _ring(self, o, fn):
        o = RFix.of(o, self)
        ks = [x for x in (self.k, o.k) if x is not None]
        return RFix(fn(self.n, o.n), self.i, self.f, min(ks) if ks else None)

    def __add__(self, o):
        return self._ring(o, lambda a, b: a + b)

    def __sub__(self, o):
        return self._ring(o, lambda a, b: a - b)

    def __mul__(self, c):
        if isinstance(c, int) and not isinstance(c, bool) and c >= 0:
            return RFix(self.n * c, self.i, self.f, self.k)
        raise OutOfDomain("fixed multiplication by non integer constant")

    __rmul__ = __mul__

    def _cmp(self, o, fn):
        o = RFix.of(o, self)
        return fn(self.exact(), o.exact())

    def __eq__(self, o):
        if isinstance(o, RFix):
            return self._cmp(o, lambda a, b: a == b)
        return NotImplemented

    def __ne__(self, o):
        if isinstance(o, RFix):
            return self._cmp(o, lambda a, b: a != b)
        return NotImplemented

    def __lt__(self, o):
        return self._cmp(o, lambda a, b: a < b)

    def __le__(self, o):
        return self._cmp(o, lambda a, b: a <= b)

    def __gt__(self, o):
        return self._cmp(o, lambda a, b: a > b)

    def __ge__(self, o):
        return self._cmp(o, lambda a, b: a >= b)

    def __hash__(self):
        return hash(self.n)

    def __bool__(self):
        raise TypeError("fixed used as a truth value")


def _ord(c):
    if isinstance(c, str) and len(c) == 1:
        return RInt(builtins.ord(c), 8)
    raise TypeError("ord of non char")


def _chr(i):
    v = RInt.of(i).exact()
    if v > 255:
        raise OutOfDomain("chr above 255")
    return builtins.chr(v)


def _minmax(is_max):
    def f(*args):
        if len(args) >= 2 and all(isinstance(a, int) and not isinstance(a, RInt) for a in args):
            # min(0, 4) written with literal constants only: folded with python semantics by the library's constant
            # folder, the result is a plain constant again (min(x) over a list-constant VARIABLE is not folded)
            return (max if is_max else min)(args)
        if len(args) == 1:
            args = tuple(args[0])
        vals = [RInt.of(a) if not isinstance(a, RFix) else a for a in args]
        if isinstance(vals[0], RFix):
            best = vals[0]
            for v in vals[1:]:
                if (v > best) if is_max else (v < best):
                    best = v
            return best
        w = max(v.w for v in vals)
        ex = [v.exact() for v in vals]
        return RInt(max(ex) if is_max else min(ex), w)

    return f


def _sum(t):
    t = list(t)
    acc = t[-1]
    for x in reversed(t[:-1]):
        acc = x + acc
    return acc


def _int(x):
    if isinstance(x, RInt):
        return x
    if isinstance(x, RFix):
        return RInt(int(x.exact()), x.i)
    raise OutOfDomain("int() of unsupported value")


FIXED_FOR_INT = {1: (1, 2), 2: (2, 2), 3: (3, 3), 4: (4, 4)}


def _float(x):
    if isinstance(x, RFix):
        return x
    if isinstance(x, RInt):
        if x.w not in FIXED_FOR_INT:
            raise OutOfDomain("float() of an integer width without a fixed type")
        i, f = FIXED_FOR_INT[x.w]
        return RFix(x.exact() << f, i, f)
    raise OutOfDomain("float() of unsupported value")


def fixed_const(i, f):
    def c(v):
        fr = Fraction(v)
        n = fr * (1 << f)
        if n.denominator != 1:
            raise OutOfDomain("inexact fixed constant")
        return RFix(int(n), i, f)

    return c


def coerce_ret(t, v):
    """value of a call: the callee's declared return type crops / zero-extends"""
    if t[0] == "int":
        r = RInt.of(v)
        if r.k is None:
            return RInt(r.v % (1 << t[1]), t[1])
        return RInt(r.v, t[1], r.k)
    if t[0] == "tuple":
        return tuple(coerce_ret(x, e) for x, e in zip(t[1], v))
    return v


def namespace():
    ns = {
        "_W": widen,
        "_R": coerce_ret,
        "ord": _ord,
        "chr": _chr,
        "min": _minmax(False),
        "max": _minmax(True),
        "sum": _sum,
        "int": _int,
        "float": _float,
        "print": lambda *a, **k: None,
        "_F": lambda n, i, f: RFix(n, i, f),
    }
    for w in (2, 3, 4, 5, 6, 7, 8, 12, 16):
        ns[f"Qint{w}"] = (lambda w: (lambda v: RInt(v % (1 << w), w)))(w)
    return ns


def compile_reference(src, fname):
    ns = namespace()
    exec(compile(src, "<reference>", "exec"), ns)
    return ns[fname]
