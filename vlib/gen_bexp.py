"""G-BEXP: boolean expression trees and SSA definition lists as JSON.

expr :=  ["s", name] | ["c", bool] | ["not", e] | ["and", [e..]] | ["or", [e..]] | ["xor", [e..]]
       | ["ite", c, t, f] | ["imp", a, b]
list :=  [[name, expr], ...]   (sequential definitions; names "_ret", "_ret.k" are return symbols)
"""

from hypothesis import strategies as st

INPUT_POOLS = [
    ["a", "b", "c", "d", "e", "f"],
    ["x0", "x1", "x2", "x3", "x4", "x5"],
    ["a.0", "a.1", "b.0", "b.1", "c", "x0"],
]


def to_sympy(e, evaluate=True):
    from sympy import Symbol
    from sympy.logic.boolalg import ITE, And, Implies, Not, Or, Xor, false, true

    k = e[0]
    if k == "s":
        return Symbol(e[1])
    if k == "c":
        return true if e[1] else false
    kw = {} if evaluate else {"evaluate": False}
    if k == "not":
        return Not(to_sympy(e[1], evaluate), **kw)
    if k in ("and", "or", "xor"):
        cls = {"and": And, "or": Or, "xor": Xor}[k]
        args = [to_sympy(x, evaluate) for x in e[1]]
        if not evaluate and k == "xor":
            return Xor(*args)  # Xor(evaluate=False) keeps duplicates that Xor itself cannot print back
        return cls(*args, **kw)
    if k == "ite":
        a, b, c = (to_sympy(x, evaluate) for x in e[1:4])
        try:
            return ITE(a, b, c, **kw)
        except Exception:
            return ITE(a, b, c)
    if k == "imp":
        return Implies(to_sympy(e[1], evaluate), to_sympy(e[2], evaluate), **kw)
    raise ValueError(e)


def list_to_sympy(lst, evaluate=True):
    from sympy import Symbol

    return [(Symbol(n), to_sympy(e, evaluate)) for n, e in lst]


def lit(names):
    return st.builds(lambda n, neg: ["not", ["s", n]] if neg else ["s", n], st.sampled_from(names), st.booleans())


def expr(names, depth, ops=("and", "or", "xor", "not", "ite", "imp"), consts=True, max_arity=4):
    leaves = [lit(names)] * 4 + ([st.sampled_from([["c", True], ["c", False]])] if consts else [])
    leaf = st.one_of(*leaves)
    if depth <= 0:
        return leaf

    sub = st.deferred(lambda: expr(names, depth - 1, ops, consts, max_arity))
    alts = [leaf]
    for o in ops:
        if o in ("and", "or", "xor"):
            alts.append(st.builds(lambda xs, o=o: [o, xs], st.lists(sub, min_size=2, max_size=max_arity)))
        elif o == "not":
            alts.append(st.builds(lambda x: ["not", x], sub))
        elif o == "ite":
            alts.append(st.builds(lambda a, b, c: ["ite", a, b, c], sub, sub, sub))
        elif o == "imp":
            alts.append(st.builds(lambda a, b: ["imp", a, b], sub, sub))
    return st.one_of(*alts)


def desugar(e, deep=True):
    """ITE / Implies written with and / or / not (what the optimizer's own rewrite steps produce)"""
    k = e[0]
    if k in ("s", "c"):
        return e
    rec = (lambda x: desugar(x, True)) if deep else (lambda x: x)
    if k == "not":
        return ["not", rec(e[1])]
    if k in ("and", "or", "xor"):
        return [k, [rec(x) for x in e[1]]]
    if k == "ite":
        c, t, f = rec(e[1]), rec(e[2]), rec(e[3])
        return ["or", [["and", [c, t]], ["and", [["not", c], f]]]]
    if k == "imp":
        return ["or", [["not", rec(e[1])], rec(e[2])]]
    raise ValueError(e)


@st.composite
def near_rule_patterns(draw, names):
    """Shapes that almost match the optimizer's rewrite rules."""
    k = draw(st.integers(2, 4))
    k = min(k, len(names))
    vs = draw(st.lists(st.sampled_from(names), min_size=k, max_size=k, unique=True))
    which = draw(st.integers(0, 9))
    if which >= 8:
        which = 1
    if which >= 6:
        # operands that differ as written and coincide once a rewrite step has been applied to them:
        # x op desugared(x)  (a duplicate may be dropped under and / or, never under xor)
        shape = draw(st.integers(0, 2))
        if shape == 0:
            x = ["ite"] + [draw(expr(names, 1, ("and", "or", "xor", "not"), consts=False)) for _ in range(3)]
        elif shape == 1:
            x = ["imp", draw(expr(names, 1, ("and", "or", "xor", "not"), consts=False)), draw(expr(names, 1, ("and", "or", "not"), consts=False))]
        else:
            x = draw(expr(names, 2, ("ite", "imp", "and", "xor"), consts=False))
        y = desugar(x, deep=draw(st.booleans()))
        ops_ = [x, y] if draw(st.booleans()) else [y, x]
        if draw(st.integers(0, 2)) == 0:
            ops_.insert(draw(st.integers(0, 2)), draw(lit(names)))
        return [draw(st.sampled_from(["xor", "xor", "xor", "and", "or"])), ops_]
    if which == 0:
        # (l1&..&lk) | (~l1&..&~lk)   -- or->xnor rule is only right for k == 2
        neg = draw(st.lists(st.booleans(), min_size=k, max_size=k))
        a = ["and", [["not", ["s", v]] if n else ["s", v] for v, n in zip(vs, neg)]]
        b = ["and", [["s", v] if n else ["not", ["s", v]] for v, n in zip(vs, neg)]]
        return ["or", [a, b]]
    if which == 1 and k >= 3 and draw(st.integers(0, 2)) > 0:
        # complementary conjunctions of DIFFERENT arity: (l1&l2) | (~l1&~l2&~l3 ...) and the mirror image
        neg = draw(st.lists(st.booleans(), min_size=k, max_size=k))
        if draw(st.booleans()):
            neg = [neg[0]] * k  # the rule's own sign pattern: all plain against all negated
            vs = sorted(vs) if draw(st.booleans()) else vs
        short = draw(st.integers(2, k - 1))
        a = ["and", [["not", ["s", v]] if n else ["s", v] for v, n in list(zip(vs, neg))[:short]]]
        b = ["and", [["s", v] if n else ["not", ["s", v]] for v, n in zip(vs, neg)]]
        return ["or", [a, b] if draw(st.booleans()) else [b, a]]
    if which == 1:
        # partially negated pair
        a = ["and", [["s", v] for v in vs]]
        b = ["and", [["not", ["s", vs[0]]]] + [["s", v] for v in vs[1:]]]
        return ["or", [a, b]]
    if which == 2:
        x = draw(expr(names, 1, ("and", "or", "xor"), consts=False))
        return [draw(st.sampled_from(["and", "or"])), [x, ["not", x]]]
    if which == 3:
        return [draw(st.sampled_from(["and", "or"])), [["s", vs[0]], ["not", ["s", vs[0]]]]]
    if which == 4:
        return ["or", [draw(expr(names, 1, consts=False)) for _ in range(draw(st.integers(2, 4)))]]
    return ["not", ["not", draw(expr(names, 1, consts=False))]]


@st.composite
def ssa_list(draw, max_inputs=6, max_inter=3, max_rets=3, depth=3, ops=("and", "or", "xor", "not", "ite", "imp")):
    pool = draw(st.sampled_from(INPUT_POOLS))
    n_in = draw(st.integers(1, max_inputs))
    inputs = pool[:n_in]
    names = list(inputs)
    lst = []
    n_inter = draw(st.integers(0, max_inter))
    inter_names = draw(st.sampled_from([["t0", "t1", "t2"], ["_t", "x9", "tmp"], ["d", "e", "f"] if n_in <= 3 else ["t0", "t1", "t2"]]))
    for i in range(n_inter):
        if draw(st.integers(0, 4)) == 0:
            e = draw(near_rule_patterns(names))
        else:
            e = draw(expr(names, draw(st.integers(1, depth)), ops))
        nm = inter_names[i]
        lst.append([nm, e])
        names.append(nm)
    n_ret = draw(st.integers(1, max_rets))
    if draw(st.integers(0, 9)) < 3:
        # chain of nested shared sub-terms s1 < s2 < s3 ..., each used by several definitions, some of them
        # mentioning an intermediate: what common-sub-expression extraction has to order correctly
        chain = [draw(expr(names, 1, ("and", "or", "xor"), consts=False))]
        for _ in range(draw(st.integers(1, 3))):
            other = draw(lit(names))
            op = draw(st.sampled_from(["and", "or", "xor"]))
            chain.append([op, [chain[-1], other] if draw(st.booleans()) else [other, chain[-1]]])
        lst2 = []
        for nm, e in lst:
            lst2.append([nm, e])
        # every level of the chain is used at least twice (so that it is extracted), deepest first
        uses = [chain[-1], chain[-1]] + [chain[i] for i in range(len(chain) - 2, -1, -1)]
        extra = draw(st.integers(0, 1))
        for _ in range(extra):
            uses.append(chain[draw(st.integers(0, len(chain) - 1))])
        for r, u in enumerate(uses):
            e = [draw(st.sampled_from(["xor", "xor", "and", "or"])), [u, draw(lit(inputs))]]
            lst2.append([f"_ret.{r}", e])
        return {"inputs": inputs, "defs": lst2, "chain": True}
    shared = draw(expr(names, 1, ops)) if draw(st.booleans()) else None
    for r in range(n_ret):
        if draw(st.integers(0, 3)) == 0:
            e = draw(near_rule_patterns(names))
        else:
            e = draw(expr(names, draw(st.integers(1, depth)), ops))
        if shared is not None and draw(st.booleans()):
            e = [draw(st.sampled_from(["and", "or", "xor"])), [shared, e]]
        lst.append(["_ret" if n_ret == 1 else f"_ret.{r}", e])
    return {"inputs": inputs, "defs": lst}
