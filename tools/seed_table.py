#!/venv/bin/python
"""Rewrite section 8.7 of DESIGN.md from /verif/seeded/*/meta.json"""
import glob
import json
import os
import re

HERE = os.path.dirname(os.path.dirname(os.path.abspath(__file__)))
rows = []
for f in sorted(glob.glob(os.path.join(HERE, "seeded", "*", "meta.json"))):
    m = json.load(open(f))
    caught = [k for k, v in m["checks_run"].items() if v["caught"]]
    missed = [k for k, v in m["checks_run"].items() if not v["caught"]]
    first = m["needs_to_manifest"].strip().split("\n")
    what = ""
    for ln in first:
        ln = ln.strip("-# ").strip()
        if ln:
            what = ln
            break
    what = re.sub(r"\s+", " ", what)[:230]
    conf = m["confirmed"]
    ok = (conf["patch_applies_to_repo_head"] or conf.get("applied_to_commit")) and conf["pinned_suite_passes_with_patch"] and conf["demo_exit_code_clean_tree"] == 0 and conf["demo_exit_code_with_patch"] != 0
    rows.append(f"| {m['id']} | {m['breaks_property']} | {what} | {'yes' if ok else 'NO'} | {', '.join(caught) or '-'} | {', '.join(missed) or '-'} |")
table = (
    "### 8.7 Which checks catch which seeded changes\n\n"
    "Seeded changes were written by independent sub-agents that saw only the property text and a scratch worktree; each was\n"
    "confirmed here (patch applies to /repo HEAD, pinned suite still passes, demonstration passes without and fails with the\n"
    "patch) and the listed quick checks were run against the patched tree through VERIF_REPO. `seeded/<id>/meta.json` has the details.\n\n"
    "| Seed | Breaks | Change (first line of the author's notes) | Confirmed | Caught by (quick tier) | Run but not caught |\n|---|---|---|---|---|---|\n"
    + "\n".join(rows)
    + "\n"
)
p = os.path.join(HERE, "DESIGN.md")
s = open(p).read()
if "### 8.7 Which checks catch" in s:
    s = s[: s.index("### 8.7 Which checks catch")] + table
else:
    s = s.rstrip("\n") + "\n\n" + table
open(p, "w").write(s)
print(len(rows), "rows")
