#!/bin/bash
# usage: try_mutant.sh <patch.diff> <ID> [<ID>...]   -- applies the patch to a scratch copy of /repo's
# working tree (outside /repo and /verif), runs the quick checks against it, removes the copy.
set -u
PATCH=$(realpath "$1"); shift
D=$(mktemp -d /tmp/qk-mut-XXXXXX)
cp -r /repo/qlasskit "$D/qlasskit"
( cd "$D" && patch -p1 -s < "$PATCH" ) || { echo "PATCH FAILED"; rm -rf "$D"; exit 3; }
rc=0
for id in "$@"; do
  VERIF_REPO="$D" VERIF_NO_SHRINK=${VERIF_NO_SHRINK:-1} /venv/bin/python /verif/check.py "$id" --tier ${TIER:-quick} 2>&1 | grep -E "^(VIOLATION|HARNESS|KNOWN|C[0-9]+ tier)" | cut -c1-300
done
rm -rf "$D"
git -C /verif checkout -- evidence 2>/dev/null
