#!/venv/bin/python
"""import_seed.py <src dir (patch.diff, demo.py, notes.md)> <seed id e.g. C03-m1> <property> <eval json file>

Copies a confirmed seeded change into /verif/seeded/<seed id>/ and writes meta.json from the
eval_seed.py summary (what was run, which checks caught it)."""
import json
import os
import shutil
import sys

HERE = os.path.dirname(os.path.dirname(os.path.abspath(__file__)))
src, sid, prop, evalf = sys.argv[1:5]
dst = os.path.join(HERE, "seeded", sid)
os.makedirs(dst, exist_ok=True)
for fn in ("patch.diff", "demo.py", "notes.md"):
    if os.path.exists(os.path.join(src, fn)):
        shutil.copy(os.path.join(src, fn), os.path.join(dst, fn))
for extra in os.listdir(src):
    if extra not in ("patch.diff", "demo.py", "notes.md") and os.path.isfile(os.path.join(src, extra)) and os.path.getsize(os.path.join(src, extra)) < 200000:
        shutil.copy(os.path.join(src, extra), os.path.join(dst, extra))
ev = json.load(open(evalf))
notes = open(os.path.join(src, "notes.md")).read() if os.path.exists(os.path.join(src, "notes.md")) else ""
meta = {
    "id": sid,
    "breaks_property": prop,
    "origin": "independent sub-agent given only the property text and a scratch worktree of /repo",
    "needs_to_manifest": notes.strip()[:1500],
    "confirmed": {
        "patch_applies_to_repo_head": ev.get("patch_applies"),
        "pinned_suite_passes_with_patch": ev.get("baseline_ok"),
        "demo_exit_code_clean_tree": ev.get("demo_clean_rc"),
        "demo_exit_code_with_patch": ev.get("demo_patched_rc"),
        "how": "tools/eval_seed.py: scratch git worktree of /repo HEAD under /tmp, git apply patch.diff, tools/baseline.py <worktree>, demo.py with PYTHONPATH=<worktree>, check.py <ID> --tier quick with VERIF_REPO=<worktree>; worktree removed afterwards",
    },
    "checks_run": {k: {"exit_code": v["rc"], "caught": v["rc"] == 1, "lines": v["lines"][:3]} for k, v in ev.get("checks", {}).items()},
}
json.dump(meta, open(os.path.join(dst, "meta.json"), "w"), indent=1)
print("imported", sid, {k: v["caught"] for k, v in meta["checks_run"].items()})
