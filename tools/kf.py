#!/venv/bin/python
"""kf.py add <ID> <status> <commit|-> <witness-src-or-> <exclude|-> <what...>  : append to known_findings.json,
copying the witness into replays/<PROP>/<ID>.json"""
import json, os, shutil, sys
HERE = os.path.dirname(os.path.dirname(os.path.abspath(__file__)))
_, cmd, fid, status, commit, wit, excl, *what = sys.argv
what = " ".join(what)
prop = fid.split("-")[0]
kf = json.load(open(os.path.join(HERE, "known_findings.json")))
assert not any(e["id"] == fid for e in kf["findings"]), "duplicate id"
e = {"id": fid, "property": prop, "status": status, "what": what}
if wit != "-":
    dst = os.path.join("replays", prop, fid + ".json")
    os.makedirs(os.path.join(HERE, "replays", prop), exist_ok=True)
    if os.path.abspath(wit) != os.path.abspath(os.path.join(HERE, dst)):
        shutil.copy(wit, os.path.join(HERE, dst))
    e["witness"] = dst
if status == "fixed":
    e["commit"] = commit
    e["line"] = f"fixed: property={prop} {commit} {what}"
if excl != "-":
    e["exclude"] = excl
kf["findings"].append(e)
json.dump(kf, open(os.path.join(HERE, "known_findings.json"), "w"), indent=1)
print("added", fid)
