#!/venv/bin/python
"""Regenerate /verif/MANIFEST.json from the table below (keeps it valid and consistent)."""
import json
import os

HERE = os.path.dirname(os.path.dirname(os.path.abspath(__file__)))

ALL = ["C%02d" % i for i in range(1, 19)]

# id -> (technique, level text, level note, design ref)
CHECKS = {
    "C09": (
        "exhaustive enumeration of all bit patterns + Hypothesis-generated nested types against own encoders (round-trip oracle)",
        "Every bit pattern of every shipped Qint/Qfixed/Qchar type is enumerated (about 75k patterns) through from_bool/to_bool/from_bin/to_bin/const/runtime constructor/to_amplitudes/const_to_qtype; every ordered pair (type or implementation base class used first, shipped type then judged) runs in a forked child so that order-of-first-use effects are decided per pair; nested Tuple/Qlist/Qmatrix decoding is explored with generated types and values (list-form outcomes decoded twice from the same object). Base-type and pair parts are exhaustive, nested part is sampled.",
        "Trusts the harness's own encoders as the statement of the documented bit layout and the measured-string convention pinned by test_qlassf.py; int-form decoding only where unambiguous.",
        "DESIGN.md section 3 C09",
    ),
}

CHECKS.update({
    "C11": (
        "Hypothesis-generated circuits; independent recomputation of classical runs + bit-parallel reversible simulation of all basis states vs own evaluation of the reported expressions",
        "Generated circuits (classical runs interleaved with non-classical gates and barriers in every position) are decompiled; section count, section gates, index ranges and the meaning of every reported expression are compared with an independent run splitter and reversible simulator on all 2^n entry states. Sampled over circuits (<=5 qubits), exhaustive over basis states.",
        "Trusts vlib.boolsem / vlib.sims (both cross-checked elsewhere); barriers at the edge of an index range are tolerated; I and MCtrl(X) objects are outside the stated gate list.",
        "DESIGN.md section 3 C11",
    ),
    "C14": (
        "Hypothesis-generated operation histories over a pool of circuits judged against a numpy unitary model (model-based), plus generated remove_identities and qft/iqft cases",
        "Histories of append_circuit/+/+=/repeat/copy and user mutations are applied to real circuits and to a matrix model (embedding, product, power); after every step the result's unitary must equal the model and every object the operation does not own must have an unchanged gate list. remove_identities must keep the unitary; iqft must undo qft on any injective qubit list. Sampled histories on <=4 (qft: <=6) qubits.",
        "Trusts the dense simulator (validated against qiskit); repeat(0) is read as the empty circuit; aliasing through bare gate tuples passed to += is not claimed.",
        "DESIGN.md section 3 C14",
    ),
})

CHECKS.update({
    "C01": (
        "Hypothesis type-directed program generator + differential oracle: library expression list evaluated on all 2^n rows vs CPython executing the same source over instrumented fixed-width numbers (exact/wrap/undetermined regimes); closed negative-space list",
        "Generated programs over the documented subset (mixed widths, operator combinations, if/for/aug-assign/unpack, builtins, list lookups, tuples/lists/matrices, chars, fixed point) are translated under both optimizer profiles; every argument assignment (<=12 bits) is compared with the reference, truth_table() and its header are cross-checked on small functions, free or missing symbols are violations. Programs adjacent to the subset must be rejected or be right. Sampled over programs, exhaustive over inputs.",
        "Trusts the reference semantics in vlib/refsem.py (mathematical integers + width rules read off the library's result types) and vlib/boolsem.py; rows the property leaves open are not judged; library exceptions are clean rejections.",
        "DESIGN.md section 3 C01",
    ),
    "C04": (
        "Hypothesis-generated SSA definition lists (incl. near-miss shapes of every rewrite rule) x {default, fast, each single step}; oracle: own column evaluator on all 2^n assignments, before vs after",
        "Each profile and each individual rewrite step is applied to generated definition lists; every return symbol must keep its truth table on all assignments, no free symbol may appear, no return symbol may be lost, the input list must not be mutated. Sampled over lists (<=6 inputs), exhaustive over assignments.",
        "Trusts vlib/boolsem.py; unevaluated sympy trees are only generated without constants (sympy itself mis-simplifies Not(true, evaluate=False)).",
        "DESIGN.md section 3 C04",
    ),
})

CHECKS.update({
    "C02": (
        "Hypothesis program generator x {default, fast} x {uncompute on, off}; oracle: own reversible simulator on all 2^n basis inputs vs own evaluation of the library's expression for each return bit",
        "Compiled circuits of generated programs (half of them boolean-shape programs that drive the compiler into nested xor/and/or/not shapes with shared sub-expressions) are simulated bit-parallel on every basis input in all four configurations; every return bit must be mapped to an in-range qubit that ends with the value of its expression. Sampled over programs (<=10 input bits), exhaustive over inputs.",
        "Reference is the library's own expression list (C01 ties it to the source); trusts vlib/sims.py and vlib/boolsem.py; circuits with non-classical gates are out of domain.",
        "DESIGN.md section 3 C02",
    ),
    "C03": (
        "same generator, uncompute=True; invariant oracle over the final value of every qubit for all 2^n basis inputs (reversible simulator)",
        "For every generated program and both optimizer profiles the final columns of all qubits are computed for all inputs: argument qubits unchanged, every qubit that is neither argument nor mapped from a return bit back to zero. Sampled over programs, exhaustive over inputs.",
        "Output qubits are those mapped from return bit names; trusts vlib/sims.py.",
        "DESIGN.md section 3 C03",
    ),
    "C06": (
        "same generator restricted to single-bool returns; oracle: reversible simulation over all 2^(n+1) (x, y) pairs, output must be y xor f(x) with inputs and scratch restored",
        "Every generated predicate circuit is run with the output qubit initialised to both values for every input: it must flip the output exactly when the library's own expression for _ret is true, leave inputs unchanged and scratch at zero; the output qubit must be a dedicated qubit. Sampled over programs, exhaustive over (x, y).",
        "f is the library's own _ret expression; trusts vlib/sims.py and vlib/boolsem.py.",
        "DESIGN.md section 3 C06",
    ),
})

CHECKS.update({
    "C05": (
        "Hypothesis signature-shape program generator; round-trip oracle: library Qtype objects -> encode_input -> own reversible simulation -> output_qubits reading -> decode_output vs reference value, for every argument value",
        "For generated programs with multi-argument and nested tuple/list/matrix/char/fixed signatures, every argument value is encoded with the library's own objects, the circuit is simulated from exactly that bit string, the output qubits are read in the reported order and decode_output must return the reference value in the return type; input_qubits/output_qubits ranges and order, sharing of output qubits and decode_counts aggregation are checked. Sampled over programs, exhaustive over values (<=10 bits).",
        "Reading convention from test_qlassf.py; reference semantics vlib/refsem.py; rows only determined modulo 2^k are left to C01.",
        "DESIGN.md section 3 C05",
    ),
    "C07": (
        "Hypothesis (callee, caller) generator with element/repeated/swapped/clashing-name arguments, three delivery modes; differential oracle: caller expressions on all rows vs reference with the callee applied to the actual values; callee fingerprint invariant",
        "Generated callers call 1..2 generated callees through defs=, inline def and oraclize; the caller's expression list is evaluated on every argument assignment against the reference composition, must contain no free symbol, and the callee object must be unchanged; arguments include tuple literals for (nested) tuple formals and variables named like other formals. Sampled over program pairs, exhaustive over inputs.",
        "Actual and formal types match exactly; a call result is coerced to the callee's declared return type; rejected calls are counted only, except a caller refused with a tuple-literal argument and accepted once the literal is bound to a local variable (metamorphic acceptance).",
        "DESIGN.md section 3 C07",
    ),
})

CHECKS.update({
    "C08": (
        "Hypothesis parameterised-program generator + bind histories on one unbound object; differential oracle on all remaining-input rows vs reference with parameters set; frame invariant on the unbound object's AST",
        "Programs with 1..3 Parameter[T] arguments are bound 2..4 times (permuted keywords, whole value domain, first binding repeated last); each bound function is compared on every assignment of the remaining arguments with the reference specialisation, equal bindings must give equal truth tables, the unbound AST and parameter table must never change, wrong parameter names/counts must raise; a matrix-parameter family (m[i][j], several shapes) and nested tuple parameters are included; a refused bind is compared with the same function translated with the value assigned as a constant (must be refused too). Sampled over programs and histories, exhaustive over remaining inputs.",
        "Only rows on which the declared-width and the constant-width reading of a bound value agree are judged; parameters are not used as loop bounds or variable subscripts.",
        "DESIGN.md section 3 C08",
    ),
})

CHECKS.update({
    "C12": (
        "Hypothesis circuit generator with boosted permutation / cancelling / occupied-target shapes; oracle: dense unitary of optimizer output vs input, gate count, input immutability",
        "Generated circuits (classical sections between non-classical gates and barriers, 1..5 qubits) are passed to circuit_boolean_optimizer without a preserve list; the result must have the same qubit count and exactly the same unitary, no more gates, the input gate list must be unchanged and no exception may escape. Sampled over circuits; full unitary comparison per circuit.",
        "Trusts the dense simulator (validated against qiskit); exact equality up to 1e-9, not up to global phase.",
        "DESIGN.md section 3 C12",
    ),
})

CHECKS.update({
    "C13": (
        "Hypothesis circuit generator per exporter gate set + compiled functions; differential oracle: own dense unitary vs qiskit Operator / cirq.unitary (bit-reversed) / sympy represent, and a reader of the emitted QASM dialect",
        "Generated circuits and compiled functions (aliased, dotted and re-defined qubit names) are exported to Qiskit, Cirq and Sympy (circuit and gate) and QASM 2/3 (circuit and gate); the exported object must have the reference unitary on the same qubit indices, QASM must declare one formal per qubit in index order and list the same operations, qubits and parameters; circuits with edited name tables and an enumerated sweep of every gate kind x ordered qubit choice x target are included (a refusal of a gate outside an exporter's set is a clean rejection). Sampled over circuits (<=5..7 qubits) and targets.",
        "Trusts the frameworks' own interpretation of their objects and the dense simulator; the library's QASM dialect is the contract; qutip/pennylane exporters cannot run here and are not claimed.",
        "DESIGN.md section 3 C13",
    ),
})

CHECKS.update({
    "C16": (
        "exhaustive enumeration of the function classes (DJ: all constant/balanced tables on 1..3 bits; BV: all secrets on 1..5 bits; Simon: all periods on 2..4 bits) x argument shapes x syntactic forms, plus Hypothesis samples on 4 bits; oracle: exact output distribution from own state-vector simulator",
        "Every function of the enumerated classes is written in several syntactic forms and argument shapes, compiled, wrapped in the algorithm and simulated exactly: constant -> P(0..0)=1, balanced -> P(0..0)=0, BV -> P(secret)=1, Simon -> support orthogonal to the period and uniform; decode_output/decode_counts must report the outcome in the argument type. Enumerated classes are exhaustive; forms and 4-bit functions are sampled.",
        "Trusts the dense simulator (validated against qiskit) with tolerance 1e-9; black boxes compiled with default settings.",
        "DESIGN.md section 3 C16",
    ),
})

CHECKS.update({
    "C15": (
        "Hypothesis (register type, solution set, 3 syntactic forms incl. Grover(g, y)) x both optimizers; metamorphic oracle: exact search-register distribution (own state-vector simulator) identical across forms, solutions dominate, decode round-trip, predicate object fingerprint invariant",
        "For each generated solution set several differently written and differently compiled predicates are wrapped in Grover; the exact marginal distribution of the search register must not depend on the form, every solution must be more likely than every non-solution with total probability above 1/2, every outcome (register-only and full-register string) must decode to the value in the argument type, and the predicate object must be unchanged. Sampled; registers of 2..5 (thorough 6) bits, circuits up to 17 qubits.",
        "Forms whose own truth table differs from S are dropped (C01 concern); trusts the dense simulator, tolerance 1e-9.",
        "DESIGN.md section 3 C15",
    ),
})

CHECKS.update({
    "C17": (
        "Hypothesis script + invocation generator; tools run in-process (sample as subprocess); oracle: own reader of the printed expression / DIMACS evaluated on all assignments vs the API's return-bit conjunction, normal-form shape predicates, byte equality with the API's QASM export",
        "Generated scripts of 1..3 @qlassf functions are passed to py2bexp (all forms x formats x entry point x stdin/file x stdout/file) and py2qasm (QASM 2/3); printed expressions are parsed and compared on every assignment with the conjunction of the selected function's return bits, must mention argument bits only and have the requested normal-form shape; DIMACS must be equivalent under some injective variable numbering; py2qasm text must equal the API export. Sampled over scripts and options, exhaustive over assignments.",
        "Trusts vlib/boolparse.py (self-checked against sympy printing) and vlib/boolsem.py; open known finding C17-K1 (sympy to_anf) excludes anf cases on which sympy's own to_anf is wrong.",
        "DESIGN.md section 3 C17",
    ),
})

CHECKS.update({
    "C18": (
        "Hypothesis program x format generator; oracle: polynomial handed to the modelling library (pyqubo test double) evaluated on all assignments vs own count of true return bits; decode_samples round trip",
        "For generated programs and every offered format the returned object is evaluated on all assignments of its variables: the input projections of its minimisers must be exactly the inputs with the fewest true return bits (energy 0 at zeros), variables must be argument bits / _ret bits / declared auxiliaries and cover every bit the energy depends on, all formats must agree per input; decode_samples must spell the sample's input bits in the argument types. Sampled over programs (<=7 input bits), exhaustive over assignments.",
        "pyqubo/dimod are absent from the sealed sandbox: a test double implementing pyqubo's documented algebra is used, so what is verified is qlasskit's side of the interface; functions with constant return bits are rejected by the (strict) constructors and only counted.",
        "DESIGN.md section 3 C18",
    ),
})

CHECKS.update({
    "C10": (
        "Hypothesis histories of public-API operations over live, re-used objects (model-based: every step's closed recipe is re-evaluated alone in a fresh interpreter); frame invariant on the fingerprints of all live objects after every step",
        "Generated histories (compile with varied options, bind, defs=[live], oraclize, four algorithm constructors, four exporters, decompile, circuit optimizer, truth_table, to_logicfun, repr) over a pool of programs with clashing and module-colliding names (incl. a parameterised caller compiled with defs and bound repeatedly) are executed in one process; an enumerated sweep takes every legal function name bound in a qlasskit module namespace (plus gate / circuit-attribute words) through a fixed set of operations and an unrelated battery before and after; each result's fingerprint must equal the one obtained by running the same recipe alone in a fresh interpreter, no live object's fingerprint may ever change, and a step may raise only if the fresh run raises. Sampled histories of 4..12 operations; every case starts from the library's import-time module state.",
        "Fingerprints cover name, args, returns, expressions, gate list, qubit map and qubit lists (exporter text / op lists for exports); fresh interpreters share PYTHONHASHSEED=0.",
        "DESIGN.md section 3 C10",
    ),
})

NOT_YET = "check not built yet in this session (work in progress; see DESIGN.md section 3)"


def main():
    checks = []
    for pid in ALL:
        if pid not in CHECKS:
            continue
        tech, text, note, ref = CHECKS[pid]
        checks.append(
            {
                "property_id": pid,
                "quick_cmd": f"/venv/bin/python check.py {pid} --tier quick",
                "thorough_cmd": f"/venv/bin/python check.py {pid} --tier thorough",
                "evidence_file": f"evidence/{pid}.json",
                "replay_cmd_template": f"/venv/bin/python check.py {pid} --replay {{path}}",
                "engine": "hypothesis-runner",
                "level_claimed": {"category": "exploration", "text": text, "design_ref": ref},
                "level_note": note,
                "technique": tech,
            }
        )
    na = [{"property_id": p, "reason": NOT_YET} for p in ALL if p not in CHECKS]
    man = {
        "version": 1,
        "setup_cmd": "/venv/bin/python tools/setup.py",
        "hooks": {
            "guard": "QLASSKIT_VERIF",
            "enable": "no source hooks are needed: checks import /repo's working tree directly (check.py sets QLASSKIT_VERIF=1, which nothing in the library reads)",
            "baseline_off_cmd": "/venv/bin/python tools/baseline.py /repo",
            "source_commits": [],
            "add_only": True,
        },
        "engines": [
            {
                "name": "hypothesis-runner",
                "path": "check.py",
                "serves_properties": [c["property_id"] for c in checks],
                "kind_free_text": "property-based testing: sharded Hypothesis generation (16 processes), explicit oracles (own bit-parallel boolean evaluator, reversible and state-vector simulators, instrumented-CPython reference semantics), exhaustive inner enumeration of input rows, collect-then-shrink per root cause, JSON replay files",
            }
        ],
        "checks": checks,
        "notes": "All checks run against /repo's working tree (override with VERIF_REPO for mutant copies). exit 0 held / 1 VIOLATION / 2 harness error. Known findings: known_findings.json.",
        "not_applicable": na,
    }
    with open(os.path.join(HERE, "MANIFEST.json"), "w") as f:
        json.dump(man, f, indent=1)
    print("wrote MANIFEST.json with", len(checks), "checks")


if __name__ == "__main__":
    main()
