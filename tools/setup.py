#!/venv/bin/python
"""Offline setup: make sure hypothesis imports under /venv/bin/python, else install it
from the local wheelhouse into /verif/.deps (never touches the network)."""
import os, subprocess, sys
HERE = os.path.dirname(os.path.dirname(os.path.abspath(__file__)))
deps = os.path.join(HERE, ".deps")
if os.path.isdir(deps):
    sys.path.insert(0, deps)
try:
    import hypothesis
    print("hypothesis", hypothesis.__version__, "available")
except ImportError:
    os.makedirs(deps, exist_ok=True)
    r = subprocess.run([sys.executable, "-m", "pip", "install", "--no-index", "--find-links",
                        "/opt/veriftools/wheels", "--target", deps, "hypothesis"])
    sys.exit(r.returncode)
import numpy, sympy  # noqa
print("setup ok")
