#!/venv/bin/python
"""Run the repository's pinned suite (guard off) and compare with BASELINE.json stable_pass.
usage: baseline.py [repo_dir] ; exit 0 iff every stable_pass test passed."""
import json, os, subprocess, sys, tempfile, xml.etree.ElementTree as ET
repo = sys.argv[1] if len(sys.argv) > 1 else "/repo"
base = json.load(open("/root/.vp/BASELINE.json"))
want = set(base["stable_pass"])
fd, xmlp = tempfile.mkstemp(suffix=".xml"); os.close(fd)
env = dict(os.environ); env.pop("QLASSKIT_VERIF", None)
env["PYTHONPATH"] = repo
cmd = ["/venv/bin/python", "-m", "pytest", "-q", "-p", "no:cacheprovider", "--timeout=900",
       "--continue-on-collection-errors", "-n", "12", f"--junitxml={xmlp}"]
r = subprocess.run(cmd, cwd=repo, env=env, capture_output=True, text=True)
passed = set()
for tc in ET.parse(xmlp).getroot().iter("testcase"):
    if not any(ch.tag in ("failure", "error", "skipped") for ch in tc):
        passed.add(f"{tc.get('classname')}::{tc.get('name')}")
os.unlink(xmlp)
missing = sorted(want - passed)
print(r.stdout.strip().splitlines()[-1] if r.stdout.strip() else r.stderr[-300:])
print(f"stable_pass={len(want)} passed_now={len(passed)} missing={len(missing)}")
for m in missing[:30]:
    print("  MISSING", m)
sys.exit(1 if missing else 0)
