#!/venv/bin/python
"""eval_seed.py <dir with patch.diff + demo.py> <ID> [<ID>...] [--tier quick] [--no-baseline]

Confirms a seeded defect in a scratch git worktree of /repo (outside /repo and /verif) and runs
the named checks against it:
  1. the patch applies to /repo's HEAD;
  2. the pinned test suite still passes with it (tools/baseline.py);
  3. demo.py exits 0 without the patch and non-zero with it;
  4. each named check (quick tier) is run with VERIF_REPO pointing at the patched tree.
Prints a JSON summary; the worktree is removed afterwards.
"""
import json
import os
import subprocess
import sys
import tempfile

HERE = os.path.dirname(os.path.dirname(os.path.abspath(__file__)))


def sh(cmd, **kw):
    return subprocess.run(cmd, shell=isinstance(cmd, str), capture_output=True, text=True, **kw)


def main():
    args = [a for a in sys.argv[1:] if not a.startswith("--")]
    flags = [a for a in sys.argv[1:] if a.startswith("--")]
    d = os.path.abspath(args[0])
    ids = args[1:]
    tier = "quick"
    for f in flags:
        if f.startswith("--tier="):
            tier = f.split("=", 1)[1]
    wt = tempfile.mkdtemp(prefix="qk-seed-")
    os.rmdir(wt)
    out = {"dir": d, "checks": {}}
    r = sh(["git", "-C", "/repo", "worktree", "add", "-q", wt, "HEAD"])
    if r.returncode != 0:
        print(json.dumps({"error": "worktree add failed", "stderr": r.stderr}))
        return 2
    try:
        env = dict(os.environ)
        env["PYTHONPATH"] = wt
        env["PYTHONHASHSEED"] = "0"
        demo = os.path.join(d, "demo.py")
        clean = sh(["/venv/bin/python", demo], env=env, cwd=wt, timeout=900)
        out["demo_clean_rc"] = clean.returncode
        ap = sh(["git", "-C", wt, "apply", os.path.join(d, "patch.diff")])
        out["patch_applies"] = ap.returncode == 0
        if ap.returncode != 0:
            out["apply_stderr"] = ap.stderr[-400:]
            print(json.dumps(out, indent=1))
            return 1
        patched = sh(["/venv/bin/python", demo], env=env, cwd=wt, timeout=900)
        out["demo_patched_rc"] = patched.returncode
        out["demo_patched_tail"] = (patched.stdout + patched.stderr)[-300:]
        if "--no-baseline" not in flags:
            b = sh(["/venv/bin/python", os.path.join(HERE, "tools", "baseline.py"), wt], timeout=1800)
            out["baseline_ok"] = b.returncode == 0
            out["baseline_tail"] = b.stdout.strip().split("\n")[-2:]
        for cid in ids:
            e2 = dict(os.environ)
            e2["VERIF_REPO"] = wt
            e2.setdefault("VERIF_NO_SHRINK", "1")
            c = sh(["/venv/bin/python", os.path.join(HERE, "check.py"), cid, "--tier", tier], env=e2, timeout=3600)
            lines = [ln for ln in c.stdout.split("\n") if ln.startswith(("VIOLATION", "HARNESS", cid + " tier"))]
            out["checks"][cid] = {"rc": c.returncode, "lines": [ln[:200] for ln in lines][:6]}
    finally:
        sh(["git", "-C", "/repo", "worktree", "remove", "--force", wt])
        sh(["git", "-C", HERE, "checkout", "--", "evidence"])
    print(json.dumps(out, indent=1))
    return 0


if __name__ == "__main__":
    sys.exit(main())
