"""Test double of the parts of pyqubo that qlasskit.bqm imports (pyqubo / dimod are not
installable in the sealed sandbox).  It implements the documented algebra:

    Binary(label)                      a 0/1 variable
    And(a,b)=ab  Or(a,b)=a+b-ab  Not(a)=1-a  Xor(a,b)=a+b-2ab          (logical gates)
    NotConst(a,b,l)   = 2ab - a - b + 1
    AndConst(a,b,c,l) = ab - 2(a+b)c + 3c
    OrConst(a,b,c,l)  = ab + (a+b)(1-2c) + c
    XorConst(a,b,c,l) = 2ab - 2(a+b)c - 4(a+b)x + 4xc + a + b + c + 4x   with x = Binary("aux_"+l)
    e1 + e2, number * e, e.compile(strength=5.0)
    model.to_qubo()  -> ({(u, v): coeff}, offset)   higher-degree monomials reduced with product variables
    model.to_ising() -> (h, J, offset)               x = (s + 1) / 2
    model.to_bqm()   -> record with .linear .quadratic .offset .vartype
    model.decode_sampleset(samples) -> objects with .sample and .energy

Like the C++ binding, constructors are strict about operand types: a Python bool raises TypeError.
Expressions are polynomials {frozenset(variable labels): coefficient}.
"""

from fractions import Fraction

SHIM = True


def _poly(x):
    if isinstance(x, Base):
        return x.p
    if isinstance(x, bool):
        raise TypeError("pyqubo expressions cannot be built from Python bool")
    if isinstance(x, (int, float, Fraction)):
        return {frozenset(): Fraction(x)} if x != 0 else {}
    raise TypeError(f"unsupported operand {type(x).__name__}")


def _add(p, q, k=1):
    r = dict(p)
    for m, c in q.items():
        v = r.get(m, 0) + k * c
        if v == 0:
            r.pop(m, None)
        else:
            r[m] = v
    return r


def _mul(p, q):
    r = {}
    for m1, c1 in p.items():
        for m2, c2 in q.items():
            m = m1 | m2  # x*x = x for binaries
            v = r.get(m, 0) + c1 * c2
            if v == 0:
                r.pop(m, None)
            else:
                r[m] = v
    return r


class Base:
    def __init__(self, p):
        self.p = p

    def __add__(self, o):
        return Base(_add(self.p, _poly(o)))

    __radd__ = __add__

    def __sub__(self, o):
        return Base(_add(self.p, _poly(o), -1))

    def __rsub__(self, o):
        return Base(_add(_poly(o), self.p, -1))

    def __mul__(self, o):
        return Base(_mul(self.p, _poly(o)))

    __rmul__ = __mul__

    def __neg__(self):
        return Base(_mul(self.p, {frozenset(): Fraction(-1)}))

    def compile(self, strength=5.0):
        return Model(self.p, Fraction(strength))


class Binary(Base):
    def __init__(self, label):
        if not isinstance(label, str):
            raise TypeError("label must be a string")
        super().__init__({frozenset([label]): Fraction(1)})
        self.label = label


def _e(x):
    if not isinstance(x, Base):
        raise TypeError(f"expected a pyqubo expression, got {type(x).__name__}")
    return x


def And(a, b):
    return _e(a) * _e(b)


def Or(a, b):
    a, b = _e(a), _e(b)
    return a + b - a * b


def Not(a):
    return 1 - _e(a)


def Xor(a, b):
    a, b = _e(a), _e(b)
    return a + b - 2 * a * b


def NotConst(a, b, label):
    a, b = _e(a), _e(b)
    return 2 * a * b - a - b + 1


def AndConst(a, b, c, label):
    a, b, c = _e(a), _e(b), _e(c)
    return a * b - 2 * (a + b) * c + 3 * c


def OrConst(a, b, c, label):
    a, b, c = _e(a), _e(b), _e(c)
    return a * b + (a + b) * (1 - 2 * c) + c


def XorConst(a, b, c, label):
    a, b, c = _e(a), _e(b), _e(c)
    x = Binary("aux_" + str(label))
    return 2 * a * b - 2 * (a + b) * c - 4 * (a + b) * x + 4 * x * c + a + b + c + 4 * x


class DecodedSample:
    def __init__(self, sample, energy):
        self.sample = sample
        self.energy = energy


class BQMRecord:
    def __init__(self, linear, quadratic, offset, vartype="BINARY"):
        self.linear, self.quadratic, self.offset, self.vartype = linear, quadratic, offset, vartype

    @property
    def variables(self):
        return sorted(self.linear)


class Model:
    def __init__(self, poly, strength):
        self.poly = poly
        self.strength = strength
        self._reduced = None

    @property
    def variables(self):
        out = set()
        for m in self.poly:
            out |= m
        return sorted(out)

    def energy(self, sample):
        e = Fraction(0)
        for m, c in self.poly.items():
            if all(sample.get(v, 0) for v in m):
                e += c
        return e

    def _reduce(self):
        """degree reduction: replace pairs by product variables w = u*v with penalty strength*(uv - 2w(u+v) + 3w)"""
        if self._reduced is not None:
            return self._reduced
        poly = dict(self.poly)
        aux = {}
        while True:
            high = [m for m in poly if len(m) > 2]
            if not high:
                break
            m = sorted(high, key=lambda s: (-len(s), sorted(s)))[0]
            u, v = sorted(m)[:2]
            w = f"{u} * {v}"
            aux[w] = (u, v)
            new = {}
            for mm, c in poly.items():
                if u in mm and v in mm and len(mm) > 2:
                    mm2 = frozenset((mm - {u, v}) | {w})
                else:
                    mm2 = mm
                new[mm2] = new.get(mm2, 0) + c
            pen = _mul({frozenset([u]): Fraction(1)}, {frozenset([v]): Fraction(1)})
            pen = _add(pen, _mul({frozenset([w]): Fraction(-2)}, {frozenset([u]): Fraction(1), frozenset([v]): Fraction(1)}))
            pen = _add(pen, {frozenset([w]): Fraction(3)})
            poly = _add({k: c for k, c in new.items() if c != 0}, {k: c * self.strength for k, c in pen.items()})
        self._reduced = (poly, aux)
        return self._reduced

    def to_qubo(self):
        poly, _ = self._reduce()
        q = {}
        offset = 0.0
        for m, c in poly.items():
            if len(m) == 0:
                offset += float(c)
            elif len(m) == 1:
                (u,) = m
                q[(u, u)] = q.get((u, u), 0.0) + float(c)
            else:
                u, v = sorted(m)
                q[(u, v)] = q.get((u, v), 0.0) + float(c)
        return q, offset

    def to_ising(self):
        q, off = self.to_qubo()
        h, J = {}, {}
        offset = off
        for (u, v), c in q.items():
            if u == v:
                h[u] = h.get(u, 0.0) + c / 2
                offset += c / 2
            else:
                J[(u, v)] = J.get((u, v), 0.0) + c / 4
                h[u] = h.get(u, 0.0) + c / 4
                h[v] = h.get(v, 0.0) + c / 4
                offset += c / 4
        return h, J, offset

    def to_bqm(self):
        q, off = self.to_qubo()
        lin = {}
        quad = {}
        for (u, v), c in q.items():
            if u == v:
                lin[u] = lin.get(u, 0.0) + c
            else:
                quad[(u, v)] = quad.get((u, v), 0.0) + c
                lin.setdefault(u, 0.0)
                lin.setdefault(v, 0.0)
        return BQMRecord(lin, quad, off)

    def decode_sampleset(self, sampleset):
        return [DecodedSample(dict(s), float(self.energy(s))) for s in sampleset]
